#!/usr/bin/env python3
"""Regenerates /verif/MANIFEST.json from the table below (kept in one place so that the
manifest is always valid)."""
import json, os, subprocess
ROOT = os.path.dirname(os.path.dirname(os.path.abspath(__file__)))

def hook_commits():
    try:
        out = subprocess.run(["git", "-C", "/repo", "log", "--format=%h %s"], capture_output=True, text=True).stdout
        return [l.split()[0] for l in out.splitlines() if " verif-hook:" in l]
    except Exception:
        return []

CHECKS = {
 "C01": dict(level="exploration", tech="stateful property-based testing (proptest): generated multi-replica histories vs. reference-model replay of the server chain + replica invariant after every step",
   text="Random search over multi-replica edit/sync histories (incl. >1 MB multi-batch pushes, ties, decreasing clocks, create-delete-create); oracle = independent replay of the versions the harness server stored + the replica invariant after every commit and sync. Exploration, not proof: bounded histories.",
   note="Trusts the harness ModelServer (atomic, linear) and reference model; in-memory storage; generated timestamps.", ref="4/C01"),
 "C02": dict(level="exploration", tech="property-based testing over generated request-level schedules of concurrent syncs (deterministic cooperative scheduler) with chain-replay oracle",
   text="Generated interleavings, at single-server-request granularity, of 1-4 concurrent Replica::sync calls after generated prior histories; every sync must be Ok, replica invariant right after each racing sync, convergence to the chain replay, nothing sent twice.",
   note="Server requests are atomic (correct server); only server requests are scheduling points (in-memory storage).", ref="4/C02"),
 "C03": dict(level="exploration", tech="exhaustive enumeration of the pair conflict space + property-based sampling of triples; rule oracle from the docs (incl. 'created on every editing replica, deleted again on one': the deletion wins) + metamorphic relation over all sync-order permutations",
   text="All pairs of single edits x value relation x timestamp relation x base state x causal follow-up are enumerated exhaustively and run in both sync orders; 2-3 replica scenarios with longer edit lists are sampled and run in all permutations. Oracle: documented winner where the rules determine one, otherwise membership + agreement; outcome equal across all sync orders; chain replay.",
   note="Rule oracle deliberately silent on ties with different values and on repeated updates of one property on one replica (not determined by the docs).", ref="4/C03"),
 "C04": dict(level="fault_enumeration", tech="fault injection enumerated over every storage call and server request of a sync, on generated lead-up histories (proptest); differential against the fault-free run + replica invariant",
   text="For each generated scenario the interrupted replica's sync is first run in counting mode, then re-run once per storage-call index x {error, process stop} and per server-request index x {error before effect, effect then lost reply}, plus generated sequences of consecutive faults, on in-memory and (subset) SQLite with reopen. Oracle: replica invariant right after the fault; retry Ok; converged state AND chain operation sequence identical to the fault-free run; nothing sent twice. Exhaustive over injection points per scenario, sampled over scenarios.",
   note="Process stop = the sync future is dropped at a storage call (uncommitted transaction abandoned); server = harness ModelServer.", ref="4/C04"),
 "C13": dict(level="exploration", tech="differential testing against an independent implementation of the documented scheme (hand-written PBKDF2-HMAC-SHA256 + ChaCha20-Poly1305, RFC-vector self-tested) + exhaustive tamper sweep + salt/secret boundary-shift pairs + inspection of what the backends store",
   text="Per generated (secret, salt): values sealed by the crate open with the independent implementation under key = PBKDF2(secret, salt, 600000), AAD = 0x01||version id, and vice versa; nonces pairwise distinct; EVERY byte x {xor 1, 0x80, 0xff}, EVERY truncation, extensions, every single-bit change of the version id, foreign app id, other secret/salt must be rejected. Objects in the in-memory object store and files in the git working tree after real syncs open with the independent implementation bound to their own version id, contain no marker plaintext, and a flipped bit / re-labelled object makes the Server call fail.",
   note="HTTP request bodies are checked with the same oracle in the HTTP campaign (see notes).", ref="4/C13"),
 "C14": dict(level="exploration", tech="property-based testing: exact wire-format validator (independent JSON + RFC 3339 parser) over transmitted versions; grammar-based generation of foreign documents with reference replay",
   text="Outbound: every version the harness server receives is checked field by field (only Create/Delete/Update, exact field sets, string-or-null values, RFC 3339 Z timestamps equal to the committed instant) and the concatenation must equal the committed operations minus undo points. Inbound: documents from a grammar (permuted fields, whitespace, \\uXXXX escapes, 0-9 fractional digits) must be applied as the reference model says.",
   note="Plaintext observed at the Server trait boundary; inbound documents use the 'operations' wrapper; malformed documents out of scope.", ref="4/C14"),
 "C16": dict(level="exploration", tech="differential (lock-step) property-based testing of the two storage backends over the whole StorageTxn surface; persistence round-trips; harness-written legacy schema files",
   text="Generated transactions of StorageTxn calls run in lock-step on InMemoryStorage and SqliteStorage, committed or abandoned, with close/reopen and read-only probes at generated points: every return value compared (collections as multisets, errors by is_ok), full dump after every transaction and reopen. Databases written by the harness in the 0.8, 0.9, (0,1), (0,2) layouts with generated content must read back identically after the upgrade, incl. per-task operation lookup.",
   note="In-contract calls only (set_working_set_item within range, one commit per transaction).", ref="4/C16"),
 "C17": dict(level="exploration", tech="randomised concurrency stress (threads and processes) with generated workloads and in-transaction delays; strict post-hoc audit through a fresh handle; in-workload serializability probe through a read-only handle (operations / tasks / operations in one transaction)",
   text="2-8 workers with their own handles on one SQLite directory run generated scripts of tagged commits, undo, rebuild and reads with sleeps inside transactions; audit: each successful commit present exactly once, contiguous and in order; failed and undone commits absent; stored tasks == replay of stored operations; working-set entries unique. Evidence reports the number of commit pairs whose wall-clock intervals actually overlapped.",
   note="Weakest use of the technique: the lock schedule is SQLite's and the OS's; only the workload is reproducible.", ref="4/C17"),
 "C18": dict(level="exploration", tech="property-based testing with hostile-value generators over the task key grammar; every read accessor under panic capture + value oracle from tasks.md; second phase with a working set made stale by later changes",
   text="Generated task maps over all recognised keys/prefixes with hostile values (i64 extremes, beyond-calendar and beyond-i64 integers, odd syntax, malformed tag/annotation/dependency keys, unknown statuses), stored via TaskData::update on in-memory/SQLite, reloaded, and every read method of Task, TaskData, WorkingSet, DependencyMap and Replica is called under catch_unwind; interpretable values must read as exactly that instant / be listed, uninterpretable ones as None / be skipped.",
   note="Odd integer syntaxes and reserved all-uppercase tag names are no-panic only.", ref="4/C18"),
 "C19": dict(level="exploration", tech="model-based property testing: a task-model reference predicts the exact recorded Update operations and resulting map of every mutator call",
   text="Generated sessions of all public Task mutators (incl. deprecated ones, reserved names, synthetic tags) and TaskData update/delete across commits, reloads and repeated application; for every call the model predicts the recorded operations (property, previous value, new value or 'now') and the held map; held object == stored object after commit; end/modified rules; tags, annotations, dependencies, UDAs, synthetic tags and dependency_map(true) read back from the model.",
   note="One object per task per session; wall-clock values accepted within the interval measured around the call.", ref="4/C19"),
 "C20": dict(level="exploration", tech="property-based testing over a full status x modified grid with generated concurrent edits and sync orders; exact-set oracle + chain replay",
   text="Every case holds the complete grid (6 statuses x 21 modified values incl. boundaries, out-of-range, non-numeric); expire_tasks must remove exactly the deleted tasks with a readable modification time older than 180 days, record ordinary Delete operations with the full old task, and after synchronization in either order with concurrent edits (update, re-open, outright delete) elsewhere the purged tasks are gone on every replica and everything else is untouched.",
   note="Wall clock read by expire_tasks: boundary cells keep >= 60 s distance; odd integer syntaxes are don't-care.", ref="4/C20"),
 "C05": dict(level="exploration", tech="exhaustive sweep of all short batches + property-based random batches; reference model, batch-vs-single differential, fault injection at every storage call of the commit; bulk commits of 780-4500 operations with generated fault positions and a one-transaction requirement",
   text="All batches of length <= 4 over a 7-symbol alphabet on 3 prior states (in-memory; <= 3 on SQLite in quick) plus longer random batches with arbitrary recorded old values: one-at-a-time reference model, twin replica committing one operation per commit, operation log / undo list / counters, replica invariant, and an injected error or stop at EVERY storage-call index of commit_operations must leave everything unchanged.",
   note="Storage transactions themselves assumed atomic here (C06/C16 check that).", ref="4/C05"),
 "C06": dict(level="fault_enumeration", tech="crash-point enumeration over every storage call of a replica action on copies of a generated SQLite database + real SIGKILLs of a child process running generated scripts; fresh-handle audit against the sequence of committed states",
   text="(a) For the last action (commit, undo, rebuild, sync) of a generated history every storage-call index x {error, stop} is injected on a copy of the directory; a fresh handle must see exactly the state after the transactions that had committed (before / after first transaction / after both for composite actions). (b) A child process runs a generated script on a SQLite directory and is SIGKILLed at a generated instant or right after reporting DONE k; the fresh-handle dump must be a committed state between 'all reported actions' and 'one more'.",
   note="Stop = future dropped + handle closed; kill instants not reproducible (oracle sound for any instant); expected states from an in-memory twin (equivalence is C16).", ref="4/C06"),
 "C07": dict(level="exploration", tech="stateful property-based testing against an operation-log model with per-operation prior states; chain inspection for withdrawn operations",
   text="Generated valid edit/undo/stale-undo/undo-after-sync/sync histories through the real TaskData API on both storages; undo list == model suffix, reversal restores exactly the state before the undo point and removes exactly those operations, stale or synced lists are refused without change, undone unique-valued operations never appear in any version sent to the harness server.",
   note="Lone undo-point segments: only 'tasks unchanged' is asserted.", ref="4/C07"),
 "C15": dict(level="exploration", tech="stateful property-based testing with a relational oracle (old working set -> new working set) derived from the statement",
   text="Generated histories of status changes through Task::set_status, bare creations, outright deletes, remote changes arriving by sync, undo, sync and rebuilds in both modes, on both storages; after every rebuild: slot 0 empty, membership == pending/recurring tasks exactly once, numbers kept (no renumber) or 1..n gap-free in the old relative order (renumber), newcomers last; after every commit: nobody moves and newly pending tasks are appended.",
   note="Order among newcomers unspecified; a newcomer may reuse a dropped trailing number.", ref="4/C15"),
 "C08": dict(level="exploration", tech="model-based property testing of the public Server trait: generated call sequences on 6 backend configurations against ONE reference chain model; stale-handle probes (another handle moves the head, then a head-unrelated request, then add-version with the previously known parent); HTTP urgency mapping; whole replicas through each backend with chain-walk replay",
   text="Generated sequences of add-version / get-child-version / add-snapshot / get-snapshot from 1-3 handles (parents: latest, nil, older, never-seen; payloads empty, random incl. invalid UTF-8, 100 kB-2 MB) on local (1 and 2 handles), git local-only, git with a shared bare remote and two clones, object store over the in-memory store, and the real HTTP client against a server written from http.md; accept iff parent == latest, rejection names latest and changes nothing (every known parent read back), children returned byte for byte, snapshots intact. Second campaign: two real replicas through each backend must equal the replay of a walk of the backend's chain.",
   note="HTTP server is the harness's reading of http.md; git-with-remote may reject a correct parent once when the remote has an unrelated new commit (tolerated if nothing changed and the retry is accepted).", ref="4/C08"),
 "C09": dict(level="exploration", tech="property-based testing over generated request-level schedules (deterministic scheduler through the in-memory object store's gate) + exhaustive enumeration of all 2-client schedules for short scripts; history invariants vs. the final chain",
   text="2-4 object-store clients with generated scripts (add on current/stale view, get-child, add-snapshot, walk) interleaved at single get/put/del/list-page/compare-and-swap granularity with list page size 1-3: accepted parents pairwise distinct, every accepted version on the final chain in compare-and-swap order with its bytes, everything any client ever received is on the final chain, rejections name accepted versions, no loser is ever served. All binary schedules of three 2-client script pairs are enumerated exhaustively.",
   note="Store linearizable per request; cleanup pinned off (C10).", ref="4/C09"),
 "C10": dict(level="exploration", tech="property-based testing over generated schedules of cleanup runs interleaved with add-version/add-snapshot/cleanup at request granularity, with generated object ages and partial cleanups; retention-rule oracle on the final store + real replicas",
   text="Initial stores with an old prefix / recent suffix, snapshots at generated positions, orphans and a replica synced at every initial version; clients run add-version, add-snapshot, cleanup (optionally failing at its k-th request); at quiescence: a snapshot on the chain remains if any was stored, every deleted version was old AND covered by a retained snapshot, no candidate child of latest deleted, the chain after every retained snapshot is retrievable, fresh and (non-deletable-based) old replicas sync to the latest state.",
   note="Creation times non-decreasing along the chain; retention age measured against the real clock with margins of days.", ref="4/C10"),
 "C11": dict(level="fault_enumeration", tech="fault injection enumerated over every internal step (named failpoints / object-store requests) of add_version and add_snapshot per backend x {error, stop / lost reply}, on generated scenarios, followed by restart, protocol probes and a generated continuation",
   text="For generated scenarios on local, object store, git local-only and git with remote (optionally with a racing replica landing between pull and push, optionally an interrupted add_snapshot), the steps of the interrupted call are counted in a fault-free run and then EVERY step x kind is injected; after dropping all handles and reopening: walk = single chain, head accepts a child, every other parent is rejected naming the head, then all three replicas continue with a generated history, every sync Ok, convergence to the replay of a final walk.",
   note="Stop at a failpoint = unwinding out of the call; object-store requests atomic.", ref="4/C11"),
 "C12": dict(level="exploration", tech="property-based testing: generated histories with Unicode content and urgency scripts; independent snapshot decoder vs. chain replay at the snapshot's version",
   text="Every snapshot the harness server receives is decoded independently (zlib+JSON) and compared with the reference replay of the chain up to exactly its version; snapshots only directly after an accepted version whose urgency met the threshold; fresh replicas from snapshot + later versions equal the full replay; non-empty replicas never take over an offered snapshot. The same through the real HTTP client (harness server stating generated urgencies) and the object-store server, judged at a recording wrapper on the Server trait boundary: upload rule against the urgency the backend reported, content against the accepted versions, served snapshot intact, fresh replica from snapshot + later versions.",
   note="Plaintext observed at the Server trait boundary; bounded histories.", ref="4/C12"),
}

PENDING_REASON = "check not built yet in this session (planned, see DESIGN.md section 4); not claimed until it runs"

def main():
    props = [json.loads(l)["id"] for l in open(os.path.join(ROOT, "properties.jsonl"))]
    checks = []
    for pid in props:
        if pid not in CHECKS:
            continue
        c = CHECKS[pid]
        checks.append({
            "property_id": pid,
            "quick_cmd": f"./check {pid} --tier quick",
            "thorough_cmd": f"./check {pid} --tier thorough",
            "evidence_file": f"/verif/evidence/{pid}.json",
            "replay_cmd_template": f"./check {pid} --replay {{path}}",
            "engine": "tcverif",
            "level_claimed": {"category": c["level"], "text": c["text"], "design_ref": f"DESIGN.md section {c['ref']}"},
            "level_note": c["note"],
            "technique": c["tech"],
        })
    manifest = {
        "version": 1,
        "setup_cmd": "./tools/setup.sh",
        "hooks": {
            "guard": "gothenburgbitfactory_taskchampion_verif",
            "enable": "RUSTFLAGS=\"--cfg gothenburgbitfactory_taskchampion_verif\" (set by ./check and harness/.cargo/config.toml); the harness crate depends on taskchampion by path=/repo",
            "baseline_off_cmd": "./tools/baseline_off.sh",
            "source_commits": hook_commits(),
            "add_only": True,
        },
        "engines": [{
            "name": "tcverif", "path": "harness",
            "serves_properties": [c["property_id"] for c in checks],
            "kind_free_text": "Rust binary: proptest 1.11 driven programmatically (TestRunner per worker, fixed seeds, shrinking, JSON replay files), exhaustive enumerations, fault enumeration, deterministic scheduler; cargo-fuzz targets under fuzz/ in the thorough tier",
        }],
        "checks": checks,
        "not_applicable": [{"property_id": p, "reason": PENDING_REASON} for p in props if p not in CHECKS],
        "notes": "Exit codes: 0 held, 1 VIOLATION line, 2 inconclusive (build failure / watchdog). VERIF_SEED and VERIF_TIER are honoured. Known findings: known-findings.json.",
    }
    json.dump(manifest, open(os.path.join(ROOT, "MANIFEST.json"), "w"), indent=1)
    print("wrote MANIFEST.json with", len(checks), "checks")

if __name__ == "__main__":
    main()
