#!/bin/bash
# Run every check's quick (or given) tier once; print one line per property.
TIER="${1:-quick}"; shift
cd "$(dirname "$0")/.."
for p in C01 C02 C03 C04 C05 C06 C07 C08 C09 C10 C11 C12 C13 C14 C15 C16 C17 C18 C19 C20; do
  s=$(date +%s)
  out=$(./check $p --tier "$TIER" "$@" 2>&1); rc=$?
  e=$(date +%s)
  echo "$p rc=$rc wall=$((e-s))s $(echo "$out" | grep -E '^SUMMARY' | sed 's/SUMMARY property=[A-Z0-9]* //')"
  if [ $rc -ne 0 ]; then echo "$out" | grep -E "VIOLATION|INCONCLUSIVE|^---" | head -5; fi
done
