#!/bin/bash
# seed_confirm2.sh <PROP> <i>: like seed_confirm.sh, for the later rounds (SEED_PREFIX, default
# /tmp/seed2-; results in CONFIRM_OUT, default /tmp/confirm2).  Demonstrations that are unit-test
# modules are placed by the PLACE variable: "append" (end of src/server/cloud/server.rs), "inside"
# (inside its mod tests), default: integration test in tests/.
P="$1"; I="$2"
WT=${CONFIRM_WT:-/tmp/wt-confirm}
OUT=${CONFIRM_OUT:-/tmp/confirm2}; mkdir -p $OUT
SP=${SEED_PREFIX:-/tmp/seed2-}
F="--no-default-features --features server-local,server-sync,server-git,storage-sqlite,bundled,tls-webpki-roots,cloud"
export CARGO_NET_OFFLINE=true CARGO_TARGET_DIR=${CONFIRM_TARGET:-/tmp/wt-confirm-target}
unset RUSTFLAGS CARGO_ENCODED_RUSTFLAGS
[ -d $WT ] || git -C /repo worktree add -q --detach $WT HEAD
cd $WT && git checkout -q -- . && git clean -fdq tests src
DIFF=$SP$P/change$I.diff; DEMO=$SP$P/demo$I.rs
place_demo() {
  case "${PLACE:-$P-$I}" in
    append) cat $DEMO >> src/server/cloud/server.rs; KIND=lib;;
    inside) f=src/server/cloud/server.rs; head -n -1 $f > $f.new; cat $DEMO >> $f.new; echo '}' >> $f.new; mv $f.new $f; KIND=lib;;
    test) cp $DEMO tests/seed_demo.rs; KIND=test;;
    C09-1|C09-2|C11-2) cat $DEMO >> src/server/cloud/server.rs; KIND=lib;;
    C10-1|C10-2|C13-1|C12-2) f=src/server/cloud/server.rs; head -n -1 $f > $f.new; cat $DEMO >> $f.new; echo '}' >> $f.new; mv $f.new $f; KIND=lib;;
    C08-1) cp $DEMO src/server/cloud/c08_demo1.rs; printf '\n#[cfg(all(test, feature = "cloud"))]\nmod c08_demo1;\n' >> src/server/cloud/mod.rs; KIND=lib; NAME=c08_demo1;;
    *) cp $DEMO tests/seed_demo.rs; KIND=test;;
  esac
}
run_demo() {
  if [ "$KIND" = lib ]; then
    name=${NAME:-$(grep -m1 -oE "^\s*mod [a-z0-9_]+" $DEMO | awk '{print $2}')}
    cargo test --offline $F --lib "$name" 2>&1 | tail -15
  else
    cargo test --offline $F --test seed_demo 2>&1 | tail -15
  fi
}
git apply $DIFF || { echo "{\"prop\":\"$P\",\"i\":$I,\"error\":\"patch does not apply\"}" > $OUT/$P-$I.json; exit 1; }
suite=$(cargo nextest run --offline $F --no-fail-fast 2>&1 | grep -E "Summary|^\s+FAIL " | tr '\n' ' ')
place_demo
with=$(run_demo)
with_ok=$(echo "$with" | grep -c "test result: ok")
with_failed=$(echo "$with" | grep -c "test result: FAILED\|error: test failed\|panicked")
git checkout -q -- . ; git clean -fdq tests src
place_demo
without=$(run_demo)
echo "$with" > $OUT/$P-$I.with.log; echo "$without" > $OUT/$P-$I.without.log
without_ok=$(echo "$without" | grep -c "test result: ok")
without_failed=$(echo "$without" | grep -c "test result: FAILED\|error: test failed\|error\[")
git checkout -q -- . ; git clean -fdq tests src
python3 - "$P" "$I" "$suite" "$with_ok" "$with_failed" "$without_ok" "$without_failed" <<'PY' > $OUT/$P-$I.json
import sys, json
p,i,suite,wo,wf,uo,uf = sys.argv[1:]
print(json.dumps({"prop":p,"i":int(i),"suite_with_change":suite.strip(),"demo_with_change":{"ok":int(wo),"failed":int(wf)},"demo_without_change":{"ok":int(uo),"failed":int(uf)}}))
PY
cat $OUT/$P-$I.json
