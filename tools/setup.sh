#!/bin/bash
# Build the harness offline from files on disk only.
set -e
HERE="$(cd "$(dirname "${BASH_SOURCE[0]}")/.." && pwd)"
export CARGO_NET_OFFLINE=true
unset CARGO_ENCODED_RUSTFLAGS
export RUSTFLAGS="--cfg gothenburgbitfactory_taskchampion_verif"
cd "$HERE/harness"
cargo build --release --offline
