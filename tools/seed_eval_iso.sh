#!/bin/bash
# seed_eval_iso.sh <patch.diff> <PROP> [more PROPs...]: like seed_eval.sh, but on a scratch worktree
# of /repo (/tmp/wt-eval$EVAL_SLOT) and a scratch copy of /verif (/tmp/verif-eval$EVAL_SLOT; several slots can run side by side) whose harness depends on
# that worktree, so that neither /repo, nor /verif/evidence, nor a check running in the background
# is disturbed.  Prints one line per check: DETECTED / MISSED / BROKEN.
PATCH="$1"; shift
SLOT="${EVAL_SLOT:-}"; WT=/tmp/wt-eval$SLOT; VE=/tmp/verif-eval$SLOT
if [ ! -d $WT ]; then git -C /repo worktree add -q --detach $WT HEAD || exit 2; fi
git -C $WT checkout -q -- . && git -C $WT checkout -q --detach "$(git -C /repo rev-parse HEAD)" || exit 2
mkdir -p $VE
rsync -a --delete --exclude .git --exclude 'harness/target' --exclude 'harness/fuzz/target' --exclude failures --exclude 'harness/build.log' /verif/ $VE/
sed -i "s#path = \"/repo\"#path = \"$WT\"#" $VE/harness/Cargo.toml
git -C $WT apply "$PATCH" || { echo "patch does not apply"; exit 2; }
for p in "$@"; do
  s=$(date +%s)
  out=$(cd $VE && VERIF_WATCHDOG_S=${SEED_WATCHDOG_S:-1500} ./check $p --tier quick 2>&1); rc=$?
  e=$(date +%s)
  case $rc in
    1) v="DETECTED";;
    0) v="MISSED";;
    *) v="BROKEN(rc=$rc)";;
  esac
  sig=$(echo "$out" | grep -m1 -E "^--- violation" | cut -c1-160)
  echo "$p $v $((e-s))s $sig"
  if [ $rc -ge 2 ]; then echo "$out" | tail -5; fi
done
git -C $WT checkout -q -- .
