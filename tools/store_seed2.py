#!/usr/bin/env python3
"""store_seed2.py: copy the second-round seeded changes from /tmp/seed2-<PROP>/ into
/verif/seeded/<PROP>-<3|4>/ with a meta.json built from the confirmation results
(/tmp/confirm2/<PROP>-<i>.json) and the evaluation table given in RESULTS (a JSON file:
{"C04/1": {"detected_by": [...], "not_detected_by": [...], "note": "..."}, ...})."""
import json, os, re, shutil, sys

results = json.load(open(sys.argv[1]))
PREFIX = sys.argv[2] if len(sys.argv) > 2 else '/tmp/seed2-'
OFFSET = int(sys.argv[3]) if len(sys.argv) > 3 else 2
CONF = sys.argv[4] if len(sys.argv) > 4 else '/tmp/confirm2'
ROUND = int(sys.argv[5]) if len(sys.argv) > 5 else 2
for key, r in sorted(results.items()):
    prop, i = key.split('/')
    i = int(i)
    src = f'{PREFIX}{prop}'
    dst = f'/verif/seeded/{prop}-{i + OFFSET}'
    os.makedirs(dst, exist_ok=True)
    shutil.copy(f'{src}/change{i}.diff', f'{dst}/patch.diff')
    shutil.copy(f'{src}/demo{i}.rs', f'{dst}/demo.rs')
    shutil.copy(f'{src}/notes{i}.md', f'{dst}/notes.md')
    notes = open(f'{src}/notes{i}.md').read()
    m = re.search(r'^#+[^\n]*needs[^\n]*\n(.*?)(?=^#+ |\Z)', notes, re.S | re.M | re.I)
    needs = m.group(1).strip() if m else ''
    files = sorted(set(re.findall(r'^diff --git a/(\S+)', open(f'{src}/change{i}.diff').read(), re.M)))
    conf = json.load(open(f'{CONF}/{prop}-{i}.json'))
    meta = {
        'id': f'{prop}-{i + OFFSET}',
        'round': ROUND,
        'breaks_property': prop,
        'files': files,
        'written_by': 'independent sub-agent given only the property text, one-line summaries of the changes of earlier rounds for that property (to avoid repeats) and a scratch worktree',
        'needs_to_manifest': needs,
        'confirmed': {
            'how': 'tools/seed_confirm2.sh in a scratch worktree of /repo (reduced feature set, cargo nextest for the existing suite; the demonstration as an integration test in tests/ or placed in the named source file as a unit-test module)',
            'existing_suite_with_change': conf.get('suite_with_change', '')[-160:],
            'demo_with_change': 'fails' if conf['demo_with_change']['failed'] and not conf['demo_with_change']['ok'] else f"unexpected: {conf['demo_with_change']}",
            'demo_without_change': 'passes' if conf['demo_without_change']['ok'] and not conf['demo_without_change']['failed'] else f"unexpected: {conf['demo_without_change']}",
        },
        'checks_run': {
            'detected_by': r.get('detected_by', []),
            'not_detected_by': r.get('not_detected_by', []),
            'how': 'tools/seed_eval_iso.sh: the patch applied to a scratch worktree of /repo, a scratch copy of /verif built against it, ./check <ID> --tier quick',
        },
        'note': r.get('note', ''),
    }
    json.dump(meta, open(f'{dst}/meta.json', 'w'), indent=1)
    print(dst, meta['confirmed']['demo_with_change'], meta['confirmed']['demo_without_change'], meta['checks_run']['detected_by'])
