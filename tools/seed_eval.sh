#!/bin/bash
# seed_eval.sh <patch.diff> <PROP> [more PROPs...]: apply a seeded change to /repo, run the checks,
# undo it.  Prints one line per check: DETECTED / MISSED / BROKEN.
PATCH="$1"; shift
cd /repo || exit 2
if [ -n "$(git status --porcelain --untracked-files=no)" ]; then echo "repo not clean"; exit 2; fi
git apply "$PATCH" || { echo "patch does not apply"; exit 2; }
# evidence written while a seeded change is applied must not replace the real evidence
EVBAK=$(mktemp -d /tmp/evbak.XXXXXX); cp -a /verif/evidence/. "$EVBAK"/
FAILBAK=$(ls /verif/failures 2>/dev/null)
for p in "$@"; do
  s=$(date +%s)
  out=$(cd /verif && VERIF_WATCHDOG_S=900 ./check $p --tier quick 2>&1); rc=$?
  e=$(date +%s)
  case $rc in
    1) v="DETECTED";;
    0) v="MISSED";;
    *) v="BROKEN(rc=$rc)";;
  esac
  sig=$(echo "$out" | grep -m1 -E "^--- violation" | cut -c1-160)
  echo "$p $v $((e-s))s $sig"
  if [ $rc -ge 2 ]; then echo "$out" | tail -5; fi
done
git -C /repo checkout -- .
cp -a "$EVBAK"/. /verif/evidence/; rm -rf "$EVBAK"
for f in $(ls /verif/failures 2>/dev/null); do echo "$FAILBAK" | grep -qx "$f" || rm -f "/verif/failures/$f"; done
