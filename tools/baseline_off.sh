#!/bin/bash
# The repository's own test suite with the verification guard OFF.
unset RUSTFLAGS CARGO_ENCODED_RUSTFLAGS
export CARGO_NET_OFFLINE=true
cd /repo || exit 2
if cargo nextest --version >/dev/null 2>&1; then
  cargo nextest run --workspace --no-fail-fast --test-threads 8 --offline
else
  cargo test --workspace --no-fail-fast --offline
fi
