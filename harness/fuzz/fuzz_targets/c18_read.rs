#![no_main]
use libfuzzer_sys::fuzz_target;

fuzz_target!(|data: &[u8]| {
    tcverif::fuzz_targets::fuzz_entry("c18_read", data);
});
