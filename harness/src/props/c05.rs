//! C05 — local commits are atomic and follow the documented operation model.

use super::common::{pool, World};
use crate::engine::exec::block_on;
use crate::engine::model::{task_uuid, ts, Model};
use crate::engine::obs::{dump_storage, Dump, StorageFault};
use crate::engine::rep::{open_sqlite, Rep};
use crate::engine::{CaseReport, CheckResult, Engine, Failure};
use proptest::prelude::*;
use serde::{Deserialize, Serialize};
use std::collections::BTreeMap;
use taskchampion::storage::Storage;
use taskchampion::Operation;

#[derive(Clone, Debug, PartialEq, Eq, Hash, Serialize, Deserialize)]
pub enum BOp {
    Create { t: u8 },
    /// `junk_old`: record an old_task that is not the task's real content
    Delete { t: u8, junk_old: bool },
    /// v: None = remove; `old`: what is recorded as old_value (0 = the real one, 1 = None, 2 = junk)
    Update { t: u8, p: u8, v: Option<u8>, old: u8 },
    Undo,
}

#[derive(Clone, Debug, PartialEq, Eq, Hash, Serialize, Deserialize)]
pub enum Step {
    Batch(Vec<BOp>),
    Sync,
}

#[derive(Clone, Debug, PartialEq, Eq, Hash, Serialize, Deserialize)]
pub struct Case {
    pub sqlite: bool,
    pub steps: Vec<Step>,
}

const PROPS: [&str; 4] = ["p", "q", "status", "r"];
const VALS: [&str; 4] = ["x", "y", "pending", "completed"];

fn bop_strategy() -> impl Strategy<Value = BOp> {
    prop_oneof![
        3 => (0u8..3).prop_map(|t| BOp::Create { t }),
        3 => (0u8..3, any::<bool>()).prop_map(|(t, junk_old)| BOp::Delete { t, junk_old }),
        8 => (0u8..3, 0u8..4, proptest::option::weighted(0.75, 0u8..4), 0u8..3)
            .prop_map(|(t, p, v, old)| BOp::Update { t, p, v, old }),
        1 => Just(BOp::Undo),
    ]
}

pub fn strategy(sqlite_weight: u32) -> BoxedStrategy<Case> {
    (
        prop_oneof![4 => Just(false), sqlite_weight => Just(true)],
        proptest::collection::vec(
            prop_oneof![
                6 => proptest::collection::vec(bop_strategy(), 1..8).prop_map(Step::Batch),
                1 => Just(Step::Sync),
            ],
            1..6,
        ),
    )
        .prop_map(|(sqlite, steps)| Case { sqlite, steps })
        .boxed()
}

/// All batches of length <= `maxlen` over the 7-symbol alphabet, on 3 prior states.
pub fn sweep(maxlen: usize, sqlite: bool) -> Vec<Case> {
    let alphabet = vec![
        BOp::Create { t: 0 },
        BOp::Delete { t: 0, junk_old: false },
        BOp::Update { t: 0, p: 0, v: Some(0), old: 0 },
        BOp::Update { t: 0, p: 0, v: None, old: 0 },
        BOp::Update { t: 0, p: 1, v: Some(1), old: 0 },
        BOp::Create { t: 1 },
        BOp::Update { t: 1, p: 0, v: Some(0), old: 0 },
    ];
    let priors: Vec<Vec<BOp>> = vec![
        vec![],
        vec![BOp::Create { t: 0 }],
        vec![BOp::Create { t: 0 }, BOp::Update { t: 0, p: 0, v: Some(1), old: 0 }],
    ];
    let mut batches: Vec<Vec<BOp>> = vec![vec![]];
    let mut frontier: Vec<Vec<BOp>> = vec![vec![]];
    for _ in 0..maxlen {
        let mut next = vec![];
        for b in &frontier {
            for a in &alphabet {
                let mut nb = b.clone();
                nb.push(a.clone());
                next.push(nb);
            }
        }
        batches.extend(next.iter().cloned());
        frontier = next;
    }
    let mut out = vec![];
    for p in &priors {
        for b in &batches {
            if b.is_empty() {
                continue;
            }
            let mut steps = vec![];
            if !p.is_empty() {
                steps.push(Step::Batch(p.clone()));
            }
            steps.push(Step::Batch(b.clone()));
            out.push(Case { sqlite, steps });
        }
    }
    out
}

fn build_ops(batch: &[BOp], local: &Model) -> Vec<Operation> {
    // old values are taken from a running copy of the state, as a caller using TaskData would
    let mut cur = local.clone();
    let mut ops = vec![];
    for b in batch {
        let op = match b {
            BOp::Create { t } => Operation::Create { uuid: task_uuid(*t as usize) },
            BOp::Delete { t, junk_old } => {
                let uuid = task_uuid(*t as usize);
                let old_task = if *junk_old {
                    [("junk".to_string(), "junk".to_string())].into_iter().collect()
                } else {
                    cur.0.get(&uuid).map(|m| m.iter().map(|(k, v)| (k.clone(), v.clone())).collect()).unwrap_or_default()
                };
                Operation::Delete { uuid, old_task }
            }
            BOp::Update { t, p, v, old } => {
                let uuid = task_uuid(*t as usize);
                let property = PROPS[*p as usize % 4].to_string();
                let old_value = match old {
                    0 => cur.0.get(&uuid).and_then(|m| m.get(&property)).cloned(),
                    1 => None,
                    _ => Some("junk".to_string()),
                };
                Operation::Update {
                    uuid,
                    property,
                    old_value,
                    value: v.map(|i| VALS[i as usize % 4].to_string()),
                    timestamp: ts(0),
                }
            }
            BOp::Undo => Operation::UndoPoint,
        };
        cur.apply_operation(&op);
        ops.push(op);
    }
    ops
}

/// Which write-cache distinctions of batch application does this batch exercise?
fn cache_classes(ops: &[Operation], before: &Model, rep: &mut CaseReport) -> bool {
    let mut interesting = false;
    #[derive(Clone, Copy, PartialEq)]
    enum Last {
        Update,
        UpdateMissing,
        Delete,
        Create,
    }
    let mut last: BTreeMap<taskchampion::Uuid, Last> = BTreeMap::new();
    let mut updates: BTreeMap<taskchampion::Uuid, usize> = BTreeMap::new();
    let mut cur = before.clone();
    for op in ops {
        let Some(u) = op.get_uuid() else { continue };
        match op {
            Operation::Create { .. } => {
                match last.get(&u) {
                    Some(Last::Update) => {
                        rep.class("update-then-create");
                        interesting = true;
                    }
                    Some(Last::UpdateMissing) => {
                        rep.class("update-on-missing-then-create");
                        interesting = true;
                    }
                    Some(Last::Delete) => {
                        rep.class("delete-then-create");
                        interesting = true;
                    }
                    _ => {}
                }
                last.insert(u, Last::Create);
            }
            Operation::Delete { .. } => {
                if last.get(&u) == Some(&Last::Update) {
                    rep.class("delete-with-pending-cached-write");
                    interesting = true;
                }
                last.insert(u, Last::Delete);
            }
            Operation::Update { .. } => {
                let n = updates.entry(u).or_default();
                *n += 1;
                if *n >= 2 {
                    rep.class("2+-updates-of-one-task");
                    interesting = true;
                }
                if last.get(&u) == Some(&Last::Delete) {
                    rep.class("update-after-delete");
                    interesting = true;
                }
                last.insert(
                    u,
                    if cur.0.contains_key(&u) { Last::Update } else { Last::UpdateMissing },
                );
            }
            Operation::UndoPoint => {}
        }
        cur.apply_operation(op);
    }
    interesting
}

fn fresh_dump(w: &World, r: usize) -> Result<Option<Dump>, Failure> {
    let Some(dir) = &w.dirs[r] else { return Ok(None) };
    let mut s: Box<dyn Storage> = Box::new(
        open_sqlite(dir.path()).map_err(|e| Failure::new("sqlite-open", format!("second handle: {e}")))?,
    );
    let d = dump_storage(s.as_mut(), &pool())
        .map_err(|e| Failure::new("sqlite-read", format!("reading through a second handle: {e}")))?;
    Ok(Some(d))
}

struct ApiView {
    tasks: Model,
    ws: Vec<Option<taskchampion::Uuid>>,
    num_local: usize,
    num_undo: usize,
    undo_ops: Vec<Operation>,
}

fn api_view(r: &mut Rep) -> Result<ApiView, Failure> {
    let e = |e: taskchampion::Error| Failure::new("api-error", format!("replica read failed: {e}"));
    Ok(ApiView {
        tasks: r.try_tasks().map_err(e)?,
        ws: r.working_set(),
        num_local: block_on(r.replica.num_local_operations()).map_err(e)?,
        num_undo: block_on(r.replica.num_undo_points()).map_err(e)?,
        undo_ops: block_on(r.replica.get_undo_operations()).map_err(e)?,
    })
}

pub fn check_case(c: &Case) -> CheckResult {
    let mut rep = CaseReport::default();
    // replica 0 = under test; replica 1 = twin that commits one operation per commit
    let mut w = World::new(2);
    if c.sqlite {
        w.make_sqlite(0)?;
        rep.class("sqlite");
    }
    let mut model = Model::new();
    let mut unsynced: Vec<Operation> = vec![];
    let mut nontrivial = false;

    for (si, step) in c.steps.iter().enumerate() {
        match step {
            Step::Sync => {
                for r in 0..2 {
                    // the two replicas use separate servers' worth of history? no: the twin
                    // must not see replica 0's versions, so only replica 0 syncs for real
                    if r == 0 {
                        w.sync(0).map_err(|e| Failure::new("sync-error", format!("step {si}: sync failed: {e}")))?;
                    }
                }
                unsynced.clear();
                w.check_replica_invariant(0, &format!("step {si} (sync)"))?;
                rep.class("sync-between-batches");
                // the twin forgets its pending operations the same way: rebuild it from the model
                let mut twin = Rep::mem(&pool());
                let mut ops = vec![];
                for (u, props) in &model.0 {
                    ops.push(Operation::Create { uuid: *u });
                    for (k, v) in props {
                        ops.push(Operation::Update {
                            uuid: *u,
                            property: k.clone(),
                            old_value: None,
                            value: Some(v.clone()),
                            timestamp: ts(0),
                        });
                    }
                }
                twin.commit(ops).map_err(|e| Failure::new("commit-error", format!("twin rebuild: {e}")))?;
                w.reps[1] = twin;
            }
            Step::Batch(batch) => {
                let ops = build_ops(batch, &model);
                if cache_classes(&ops, &model, &mut rep) {
                    nontrivial = true;
                }
                // (d) atomicity: inject a fault at every storage-call index of the commit
                let before_view = api_view(&mut w.reps[0])?;
                let before_dump = w.reps[0].dump();
                let before_commits = w.reps[0].probe.commits();
                let mut i = 0usize;
                loop {
                    let kind = if i % 2 == 0 { StorageFault::Err } else { StorageFault::Stop };
                    w.reps[0].probe.arm(Some((i / 2, kind)), false);
                    let hung = w.reps[0].probe.hung.clone();
                    let res = crate::engine::exec::block_on_abortable(
                        w.reps[0].replica.commit_operations(ops.clone()),
                        &hung,
                    );
                    let fired = w.reps[0].probe.fired();
                    w.reps[0].probe.disarm();
                    if !fired {
                        match res {
                            Some(Ok(())) => break,
                            other => crate::fail!(
                                "commit-error",
                                "step {si}: commit of a batch failed without an injected fault: {:?}",
                                other.map(|r| r.map_err(|e| e.to_string()))
                            ),
                        }
                    }
                    rep.extra_evals += 1;
                    if let Some(Ok(())) = res {
                        // the commit reported success although a storage call failed: then it
                        // must have taken effect completely; handled by the checks below
                        break;
                    }
                    crate::ensure!(
                        w.reps[0].probe.commits() == before_commits,
                        "partial-commit",
                        "step {si}: commit_operations failed at storage call {} ({kind:?}) but a transaction was committed",
                        i / 2
                    );
                    let v = api_view(&mut w.reps[0])?;
                    crate::ensure!(
                        v.tasks == before_view.tasks
                            && v.ws == before_view.ws
                            && v.num_local == before_view.num_local
                            && v.num_undo == before_view.num_undo
                            && v.undo_ops == before_view.undo_ops,
                        "failed-commit-visible",
                        "step {si}: commit_operations failed at storage call {} ({kind:?}) but the replica changed: tasks {} -> {}",
                        i / 2,
                        before_view.tasks.render(),
                        v.tasks.render()
                    );
                    if c.sqlite && (i / 2) % 4 == 1 {
                        // through a fresh handle on the same directory
                        if let Some(d) = fresh_dump(&w, 0)? {
                            crate::ensure!(
                                d.normalized() == before_dump.normalized(),
                                "failed-commit-visible",
                                "step {si}: after a commit that failed at storage call {} a fresh SQLite handle sees different contents",
                                i / 2
                            );
                        }
                    }
                    i += 1;
                    if i > 4000 {
                        crate::fail!("harness-bug", "fault index runaway");
                    }
                }
                // the commit has now happened
                for op in &ops {
                    model.apply_operation(op);
                }
                unsynced.extend(ops.iter().cloned());
                // twin: one operation per commit
                for op in &ops {
                    w.reps[1]
                        .commit(vec![op.clone()])
                        .map_err(|e| Failure::new("commit-error", format!("twin commit failed: {e}")))?;
                }
                // (a) the reference model, one operation at a time
                let got = w.reps[0].tasks();
                crate::ensure!(
                    got == model,
                    "batch-vs-model",
                    "step {si}: after committing {} operations the replica holds\n  {}\nbut applying them one at a time under the documented rules gives\n  {}\nbatch: {:?}",
                    ops.len(),
                    got.render(),
                    model.render(),
                    batch
                );
                // (b) differential against one-commit-per-operation
                let twin_tasks = w.reps[1].tasks();
                crate::ensure!(
                    twin_tasks == got,
                    "batch-vs-single",
                    "step {si}: committing the batch at once gives\n  {}\nbut committing its operations one by one gives\n  {}",
                    got.render(),
                    twin_tasks.render()
                );
                // (c) the operation log
                let d = w.reps[0].dump();
                crate::ensure!(
                    d.unsynced == unsynced,
                    "unsynced-log",
                    "step {si}: unsynchronized operations are not 'previous list ++ batch, in order': stored {} expected {}",
                    d.unsynced.len(),
                    unsynced.len()
                );
                let v = api_view(&mut w.reps[0])?;
                let real = unsynced.iter().filter(|o| !o.is_undo_point()).count();
                let undo = unsynced.len() - real;
                crate::ensure!(
                    v.num_local == real && v.num_undo == undo,
                    "op-counts",
                    "step {si}: num_local_operations={} num_undo_points={} but the log holds {real} operations and {undo} undo points",
                    v.num_local,
                    v.num_undo
                );
                let want_undo: Vec<Operation> = match unsynced.iter().rposition(|o| o.is_undo_point()) {
                    Some(i) => unsynced[i..].to_vec(),
                    None => unsynced.clone(),
                };
                crate::ensure!(
                    v.undo_ops == want_undo,
                    "undo-ops",
                    "step {si}: get_undo_operations returned {} operations, expected the {} back to the last undo point",
                    v.undo_ops.len(),
                    want_undo.len()
                );
                // twin log equal as well
                let td = w.reps[1].dump();
                let twin_tail = &td.unsynced[td.unsynced.len().saturating_sub(unsynced.len())..];
                crate::ensure!(
                    td.unsynced.len() >= unsynced.len() && twin_tail == &unsynced[..],
                    "batch-vs-single",
                    "step {si}: operation logs of the batch replica and of the one-by-one replica differ"
                );
                // (e) replica invariant
                w.check_replica_invariant(0, &format!("step {si} (commit)"))?;
                if c.sqlite {
                    if let Some(fd) = fresh_dump(&w, 0)? {
                        crate::ensure!(
                            fd.tasks == model && fd.unsynced == unsynced,
                            "sqlite-visible-after-commit",
                            "step {si}: a fresh SQLite handle does not see the committed batch"
                        );
                    }
                }
            }
        }
    }
    // finally: everything pending reaches the server exactly as logged
    w.sync(0).map_err(|e| Failure::new("sync-error", format!("final sync failed: {e}")))?;
    w.check_replica_invariant(0, "final sync")?;
    rep.nontrivial = nontrivial;
    Ok(rep)
}

// ---------------------------------------------------------------------------------------------
// bulk commits: thousands of operations in one commit_operations call

#[derive(Clone, Debug, PartialEq, Eq, Hash, Serialize, Deserialize)]
pub struct BulkCase {
    pub sqlite: bool,
    /// number of tasks; each gets a Create and `per_task` updates (every third task becomes pending)
    pub tasks: u16,
    pub per_task: u8,
    /// where the faults go, as fractions (x/65536) of the storage calls of the fault-free commit
    pub faults: Vec<(u16, bool)>,
}

pub fn bulk_strategy() -> BoxedStrategy<BulkCase> {
    (any::<bool>(), 260u16..900, 2u8..5, proptest::collection::vec((any::<u16>(), any::<bool>()), 2..6))
        .prop_map(|(sqlite, tasks, per_task, faults)| BulkCase { sqlite, tasks, per_task, faults })
        .boxed()
}

pub fn check_bulk(c: &BulkCase) -> CheckResult {
    let mut rep = CaseReport::default();
    let mut w = World::new(1);
    if c.sqlite {
        w.make_sqlite(0)?;
        rep.class("sqlite");
    }
    // something committed before, so that "unchanged" is not "empty"
    let first = taskchampion::Uuid::from_u128(0xb01c_0000);
    let prior = vec![
        Operation::UndoPoint,
        Operation::Create { uuid: first },
        Operation::Update { uuid: first, property: "status".into(), old_value: None, value: Some("pending".into()), timestamp: ts(0) },
    ];
    w.reps[0].commit(prior.clone()).map_err(|e| Failure::new("commit-error", format!("{e}")))?;
    let mut ops = vec![Operation::UndoPoint];
    for k in 0..c.tasks as u128 {
        let uuid = taskchampion::Uuid::from_u128(0xb01c_0001 + k);
        ops.push(Operation::Create { uuid });
        for j in 0..c.per_task {
            let (property, value) = if j == 0 && k % 3 == 0 {
                ("status".to_string(), "pending".to_string())
            } else {
                (format!("p{j}"), format!("v{k}-{j}"))
            };
            ops.push(Operation::Update { uuid, property, old_value: None, value: Some(value), timestamp: ts(0) });
        }
    }
    let mut model = Model::new();
    for op in prior.iter().chain(ops.iter()) {
        model.apply_operation(op);
    }
    // how many storage calls does the fault-free commit make?  (measured on a twin)
    let calls = {
        let mut t = World::new(1);
        if c.sqlite {
            t.make_sqlite(0)?;
        }
        t.reps[0].commit(prior.clone()).map_err(|e| Failure::new("commit-error", format!("{e}")))?;
        t.reps[0].probe.arm(None, false);
        t.reps[0].commit(ops.clone()).map_err(|e| Failure::new("commit-error", format!("twin: {e}")))?;
        t.reps[0].probe.calls()
    };
    let before_view = api_view(&mut w.reps[0])?;
    let before_dump = w.reps[0].dump();
    let before_commits = w.reps[0].probe.commits();
    for (frac, stop) in &c.faults {
        let idx = (*frac as usize * calls) >> 16;
        let kind = if *stop { StorageFault::Stop } else { StorageFault::Err };
        w.reps[0].probe.arm(Some((idx, kind)), false);
        let hung = w.reps[0].probe.hung.clone();
        let res = crate::engine::exec::block_on_abortable(w.reps[0].replica.commit_operations(ops.clone()), &hung);
        let fired = w.reps[0].probe.fired();
        w.reps[0].probe.disarm();
        crate::ensure!(fired, "harness-bug", "fault at storage call {idx} of {calls} did not fire");
        if let Some(Ok(())) = res {
            crate::fail!("harness-bug", "commit reported success although storage call {idx} failed");
        }
        rep.extra_evals += 1;
        crate::ensure!(
            w.reps[0].probe.commits() == before_commits,
            "partial-commit",
            "a commit of {} operations failed at storage call {idx} of {calls} ({kind:?}) but a transaction was committed",
            ops.len()
        );
        let v = api_view(&mut w.reps[0])?;
        crate::ensure!(
            v.tasks == before_view.tasks && v.ws == before_view.ws && v.num_local == before_view.num_local && v.num_undo == before_view.num_undo,
            "failed-commit-visible",
            "a commit of {} operations failed at storage call {idx} of {calls} ({kind:?}) but the replica changed: {} tasks -> {} tasks, {} -> {} local operations",
            ops.len(),
            before_view.tasks.0.len(),
            v.tasks.0.len(),
            before_view.num_local,
            v.num_local
        );
        if c.sqlite {
            if let Some(d) = fresh_dump(&w, 0)? {
                crate::ensure!(
                    d.normalized() == before_dump.normalized(),
                    "failed-commit-visible",
                    "after a commit of {} operations that failed at storage call {idx} of {calls} a fresh SQLite handle sees different contents",
                    ops.len()
                );
            }
        }
    }
    w.reps[0].commit(ops.clone()).map_err(|e| Failure::new("commit-error", format!("the fault-free bulk commit failed: {e}")))?;
    let got = w.reps[0].tasks();
    crate::ensure!(got == model, "batch-vs-model", "after a commit of {} operations the replica holds {} tasks that differ from the reference model ({} tasks)", ops.len(), got.0.len(), model.0.len());
    let d = w.reps[0].dump();
    let want: Vec<Operation> = prior.iter().chain(ops.iter()).cloned().collect();
    crate::ensure!(d.unsynced == want, "unsynced-log", "unsynchronized operations are not 'previous list ++ batch, in order': stored {} expected {}", d.unsynced.len(), want.len());
    crate::ensure!(
        w.reps[0].probe.commits() == before_commits + 1,
        "partial-commit",
        "a commit of {} operations was carried out in {} storage transactions",
        ops.len(),
        w.reps[0].probe.commits() - before_commits
    );
    let ws = w.reps[0].working_set();
    let pending = model.0.values().filter(|p| p.get("status").map(|s| s == "pending").unwrap_or(false)).count();
    crate::ensure!(ws.iter().flatten().count() == pending, "working-set", "{} tasks became pending in the commit, the working set lists {}", pending, ws.iter().flatten().count());
    rep.class(if ops.len() > 2000 { "more-than-2000-operations" } else { "more-than-1000-operations" });
    rep.nontrivial = ops.len() > 1000;
    Ok(rep)
}

pub fn render(c: &Case) -> serde_json::Value {
    serde_json::json!({
        "storage": if c.sqlite { "sqlite" } else { "in-memory" },
        "steps": c.steps.iter().map(|s| match s {
            Step::Sync => "sync".to_string(),
            Step::Batch(b) => format!("commit {:?}", b),
        }).collect::<Vec<_>>(),
    })
}

pub fn run(e: &Engine) {
    e.assume("storage transactions themselves are atomic (C06/C16); a failed commit_operations is judged by 'no transaction committed' + unchanged API view (+ a fresh SQLite handle on a subset)");
    let rule_sweep = "ALL batches of length 1..=4 over {Create a, Delete a, Update a.p=x, Update a.p=remove, Update a.q=y, Create b, Update b.p=x} on prior states {absent, empty, {p:y}}; for each: reference model one-at-a-time, twin replica committing one operation per commit, operation log, undo list, injected error/stop at every storage call of the commit; non-trivial = the batch exercises a write-cache distinction (update->create, delete->create, update-on-missing->create, 2+ updates of a task, delete with a pending cached write)";
    e.enumerate("sweep-inmemory", rule_sweep, sweep(4, false), render, check_case);
    e.enumerate(
        "sweep-sqlite",
        "the same sweep for batches of length <= 3 (thorough: 4) on the SQLite storage, with reads through a fresh handle",
        sweep(e.tier.pick(3, 4), true),
        render,
        check_case,
    );
    e.campaign(
        "random-batches",
        "1-5 steps of longer random batches (3 tasks x 4 properties incl. status, arbitrary recorded old values / old tasks, undo points) and syncs, on both storages; same oracles",
        e.tier.pick(10_000, 400_000),
        || strategy(1),
        render,
        check_case,
    );
    e.set_shrink_iters(30);
    e.campaign(
        "bulk-commits",
        "one commit_operations call with 780-4500 operations (260-900 new tasks, every third pending) on either storage, interrupted by an injected error or stop at 2-5 generated positions among its storage calls: nothing may be committed or visible (API view, fresh SQLite handle); then the uninterrupted commit: one storage transaction, tasks == reference model, log == previous ++ batch, working set lists the new pending tasks; non-trivial = more than 1000 operations",
        e.tier.pick(48, 1500),
        bulk_strategy,
        |c| serde_json::json!({"storage": if c.sqlite { "sqlite" } else { "in-memory" }, "tasks": c.tasks, "updates_per_task": c.per_task, "faults": c.faults}),
        check_bulk,
    );
    e.set_shrink_iters(4000);
    e.fuzz_corpus("c05_batch");
    e.fuzz_campaign("c05_batch", 300000);
}
