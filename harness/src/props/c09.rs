//! C09 — the object-store server keeps one version chain under concurrent clients.

use super::c08::shared_cryptor;
use crate::engine::exec::block_on;
use crate::engine::sched::{run_scheduled, Client};
use crate::engine::{CaseReport, CheckResult, Engine, Failure};
use proptest::prelude::*;
use serde::{Deserialize, Serialize};
use std::collections::{BTreeMap, BTreeSet};
use taskchampion::server::verif::{cloud_server, set_draws, CloudHandle, Cryptor, ObjectStore, StoreRequest};
use taskchampion::server::{AddVersionResult, GetVersionResult, Server};
use taskchampion::Uuid;

#[derive(Clone, Debug, PartialEq, Eq, Hash, Serialize, Deserialize)]
pub enum COp {
    /// add a version on this client's current view of the latest version, or on a stale one
    Add { stale: bool },
    /// get the child of some version id seen so far
    GetChild { sel: u16 },
    /// store a snapshot for a version this client was told was accepted
    AddSnapshot { sel: u16 },
    /// follow children from the root
    Walk,
    GetSnapshot,
}

#[derive(Clone, Debug, PartialEq, Eq, Hash, Serialize, Deserialize)]
pub struct Case {
    pub initial_chain: u8,
    pub page_size: u8,
    pub scripts: Vec<Vec<COp>>,
    pub schedule: Vec<u8>,
}

pub fn cop() -> impl Strategy<Value = COp> {
    prop_oneof![
        6 => prop_oneof![4 => Just(false), 1 => Just(true)].prop_map(|stale| COp::Add { stale }),
        3 => any::<u16>().prop_map(|sel| COp::GetChild { sel }),
        1 => any::<u16>().prop_map(|sel| COp::AddSnapshot { sel }),
        2 => Just(COp::Walk),
        1 => Just(COp::GetSnapshot),
    ]
}

pub fn strategy() -> BoxedStrategy<Case> {
    (0u8..4, 1u8..4, 2usize..=4)
        .prop_flat_map(|(initial_chain, page_size, clients)| {
            (
                proptest::collection::vec(proptest::collection::vec(cop(), 1..=4), clients),
                proptest::collection::vec(any::<u8>(), 0..80),
            )
                .prop_map(move |(scripts, schedule)| Case {
                    initial_chain,
                    page_size,
                    scripts,
                    schedule,
                })
        })
        .boxed()
}

type V = (Uuid, Uuid, Vec<u8>); // id, parent, bytes

#[derive(Clone, Debug)]
pub enum Event {
    Accepted { parent: Uuid, id: Uuid, bytes: Vec<u8> },
    Rejected { parent: Uuid, expected: Uuid },
    Child { parent: Uuid, result: Option<V> },
    Walked(Vec<V>),
    SnapshotStored(Uuid, Vec<u8>),
    SnapshotGot(Option<(Uuid, Vec<u8>)>),
    Error(String),
}

pub async fn walk(srv: &mut CloudHandle) -> Result<Vec<V>, String> {
    let mut out = vec![];
    let mut p = Uuid::nil();
    loop {
        match srv.get_child_version(p).await {
            Ok(GetVersionResult::Version { version_id, parent_version_id, history_segment }) => {
                out.push((version_id, parent_version_id, history_segment));
                p = version_id;
                if out.len() > 1000 {
                    return Err("walk does not terminate".into());
                }
            }
            Ok(GetVersionResult::NoSuchVersion) => return Ok(out),
            Err(e) => return Err(format!("get_child_version({p}) failed: {e}")),
        }
    }
}

pub async fn run_client(mut srv: CloudHandle, client: usize, script: Vec<COp>, initial: Vec<V>) -> Vec<Event> {
    let mut ev = vec![];
    let mut known: Vec<Uuid> = std::iter::once(Uuid::nil()).chain(initial.iter().map(|v| v.0)).collect();
    let mut view = initial.last().map(|v| v.0).unwrap_or(Uuid::nil());
    let mut stale_view = initial.first().map(|v| v.1).unwrap_or(Uuid::nil());
    let mut accepted: Vec<Uuid> = vec![];
    for (i, op) in script.iter().enumerate() {
        match op {
            COp::Add { stale } => {
                let parent = if *stale { stale_view } else { view };
                let bytes = format!("payload of client {client} op {i}").into_bytes();
                match srv.add_version(parent, bytes.clone()).await {
                    Ok((AddVersionResult::Ok(id), _)) => {
                        ev.push(Event::Accepted { parent, id, bytes });
                        stale_view = view;
                        view = id;
                        known.push(id);
                        accepted.push(id);
                    }
                    Ok((AddVersionResult::ExpectedParentVersion(x), _)) => {
                        ev.push(Event::Rejected { parent, expected: x });
                        stale_view = view;
                        view = x;
                        if !known.contains(&x) {
                            known.push(x);
                        }
                    }
                    Err(e) => ev.push(Event::Error(format!("add_version: {e}"))),
                }
            }
            COp::GetChild { sel } => {
                let parent = known[(*sel as usize * known.len()) >> 16];
                match srv.get_child_version(parent).await {
                    Ok(GetVersionResult::Version { version_id, parent_version_id, history_segment }) => {
                        if !known.contains(&version_id) {
                            known.push(version_id);
                        }
                        ev.push(Event::Child { parent, result: Some((version_id, parent_version_id, history_segment)) });
                    }
                    Ok(GetVersionResult::NoSuchVersion) => ev.push(Event::Child { parent, result: None }),
                    Err(e) => ev.push(Event::Error(format!("get_child_version: {e}"))),
                }
            }
            COp::AddSnapshot { sel } => {
                if accepted.is_empty() {
                    continue;
                }
                let v = accepted[(*sel as usize * accepted.len()) >> 16];
                let bytes = format!("snapshot by client {client} for {v}").into_bytes();
                match srv.add_snapshot(v, bytes.clone()).await {
                    Ok(()) => ev.push(Event::SnapshotStored(v, bytes)),
                    Err(e) => ev.push(Event::Error(format!("add_snapshot: {e}"))),
                }
            }
            COp::Walk => match walk(&mut srv).await {
                Ok(w) => {
                    for v in &w {
                        if !known.contains(&v.0) {
                            known.push(v.0);
                        }
                    }
                    if let Some(l) = w.last() {
                        view = l.0;
                    }
                    ev.push(Event::Walked(w));
                }
                Err(e) => ev.push(Event::Error(e)),
            },
            COp::GetSnapshot => match srv.get_snapshot().await {
                Ok(s) => ev.push(Event::SnapshotGot(s)),
                Err(e) => ev.push(Event::Error(format!("get_snapshot: {e}"))),
            },
        }
    }
    ev
}

pub struct Setup {
    pub store: ObjectStore,
    pub cryptor: Cryptor,
    pub initial: Vec<V>,
}

pub fn setup(initial_chain: u8, page_size: u8) -> Result<Setup, Failure> {
    let (salt, cryptor) = shared_cryptor();
    let store = ObjectStore::new(page_size as usize);
    store.raw_put("salt", 0, salt);
    set_draws(vec![], Some(255));
    let mut srv = cloud_server(store.handle(99), &cryptor);
    let mut initial = vec![];
    let mut p = Uuid::nil();
    for i in 0..initial_chain {
        let bytes = format!("initial version {i}").into_bytes();
        match block_on(srv.add_version(p, bytes.clone())) {
            Ok((AddVersionResult::Ok(id), _)) => {
                initial.push((id, p, bytes));
                p = id;
            }
            other => crate::fail!("setup", "initial chain: {other:?}"),
        }
    }
    store.clear_log();
    Ok(Setup { store, cryptor, initial })
}

/// The invariants over the whole history.
pub fn judge(
    st: &Setup,
    events: &[Vec<Event>],
    log: &[StoreRequest],
    rep: &mut CaseReport,
    allow_missing_prefix: bool,
) -> Result<Vec<V>, Failure> {
    for (c, evs) in events.iter().enumerate() {
        for e in evs {
            if let Event::Error(msg) = e {
                crate::fail!("client-error", "client {c}: a call failed although the object store is healthy: {msg}");
            }
        }
    }
    // final quiescent walk through a fresh, ungated handle
    let mut fresh = cloud_server(st.store.handle(1000), &st.cryptor);
    let chain = block_on(walk(&mut fresh)).map_err(|e| Failure::new("final-walk", format!("final walk failed: {e}")))?;
    let on_chain: BTreeMap<Uuid, &V> = chain.iter().map(|v| (v.0, v)).collect();
    if !allow_missing_prefix {
        for (i, v) in st.initial.iter().enumerate() {
            crate::ensure!(chain.get(i) == Some(v), "initial-chain-changed", "the pre-existing chain changed at position {i}");
        }
    }
    // (1) accepted parents pairwise distinct; every accepted version on the chain with its bytes
    let mut parents: BTreeSet<Uuid> = st.initial.iter().map(|v| v.1).collect();
    let mut accepted_ids: BTreeSet<Uuid> = st.initial.iter().map(|v| v.0).collect();
    for (c, evs) in events.iter().enumerate() {
        for e in evs {
            if let Event::Accepted { parent, id, bytes } = e {
                crate::ensure!(
                    parents.insert(*parent),
                    "two-children-accepted",
                    "client {c} was told its version {id} with parent {parent} was accepted, but another version with that parent had been accepted too"
                );
                accepted_ids.insert(*id);
                match on_chain.get(id) {
                    Some(v) => crate::ensure!(
                        v.1 == *parent && v.2 == *bytes,
                        "accepted-version-altered",
                        "version {id} accepted from client {c} is on the final chain with a different parent or different bytes"
                    ),
                    None => crate::fail!(
                        "accepted-version-lost",
                        "client {c} was told its version {id} (parent {parent}) was accepted, but the final chain from the root does not contain it; chain: {:?}",
                        chain.iter().map(|v| v.0).collect::<Vec<_>>()
                    ),
                }
            }
        }
    }
    // chain members must all be accepted versions (no loser ever on the chain)
    for v in &chain {
        crate::ensure!(
            accepted_ids.contains(&v.0),
            "unaccepted-version-on-chain",
            "the final chain contains {} which no client was told was accepted",
            v.0
        );
    }
    // (2) the order of the chain is the order of the successful compare-and-swaps of 'latest'
    let cas_order: Vec<Uuid> = {
        // names of put requests give (client -> version ids in put order); the k-th successful
        // cas of a client commits its most recent put
        let mut last_put: BTreeMap<usize, Uuid> = BTreeMap::new();
        let mut order = vec![];
        for r in log {
            if r.kind == "put" && r.name.starts_with("v-") {
                if let Ok(id) = Uuid::parse_str(&r.name[35..]) {
                    last_put.insert(r.client, id);
                }
            }
            if r.kind == "cas" && r.name == "latest" && r.result {
                if let Some(id) = last_put.get(&r.client) {
                    order.push(*id);
                }
            }
        }
        order
    };
    let chain_new: Vec<Uuid> = chain.iter().map(|v| v.0).filter(|id| !st.initial.iter().any(|i| i.0 == *id)).collect();
    crate::ensure!(
        chain_new == cas_order,
        "chain-order",
        "the versions on the final chain {chain_new:?} are not in the order of the successful compare-and-swaps {cas_order:?}"
    );
    // (3) everything any client received is on the final chain
    let check_served = |c: usize, v: &V, how: &str| -> Result<(), Failure> {
        match on_chain.get(&v.0) {
            Some(w) => {
                crate::ensure!(
                    w.1 == v.1 && w.2 == v.2,
                    "served-version-altered",
                    "client {c} received version {} via {how} with parent/bytes that differ from the final chain",
                    v.0
                );
                Ok(())
            }
            None => Err(Failure::new(
                "off-chain-version-served",
                format!(
                    "client {c} received version {} (parent {}) via {how}, but that version is not on the final chain (a leftover of a lost race was served)",
                    v.0, v.1
                ),
            )),
        }
    };
    for (c, evs) in events.iter().enumerate() {
        for e in evs {
            match e {
                Event::Child { parent, result: Some(v) } => {
                    crate::ensure!(v.1 == *parent, "wrong-child", "client {c}: child of {parent} claims parent {}", v.1);
                    check_served(c, v, "get_child_version")?;
                }
                Event::Walked(w) => {
                    let mut p = Uuid::nil();
                    for v in w {
                        crate::ensure!(v.1 == p, "wrong-child", "client {c}: walk step from {p} returned a version with parent {}", v.1);
                        check_served(c, v, "a walk")?;
                        p = v.0;
                    }
                }
                // (4) rejections name nil or an accepted version
                Event::Rejected { expected, .. } => crate::ensure!(
                    expected.is_nil() || accepted_ids.contains(expected),
                    "rejection-names-unaccepted-version",
                    "client {c} was told to rebase on {expected}, which is neither nil nor an accepted version"
                ),
                Event::SnapshotGot(Some((v, bytes))) => {
                    let stored = events.iter().flatten().any(|e| matches!(e, Event::SnapshotStored(sv, sb) if sv == v && sb == bytes));
                    crate::ensure!(stored, "snapshot-not-intact", "client {c} received a snapshot ({v}) that was never stored in that form");
                }
                _ => {}
            }
        }
    }
    // (6) remaining version objects: chain members, or leftovers whose parent was the latest
    // version when they were written (they could still have won)
    for (name, _, _) in st.store.raw_list() {
        if let Some(rest) = name.strip_prefix("v-") {
            let (Ok(p), Ok(cid)) = (Uuid::parse_str(&rest[..32]), Uuid::parse_str(&rest[33..])) else {
                crate::fail!("object-name", "unparseable version object {name}");
            };
            if on_chain.contains_key(&cid) {
                continue;
            }
            crate::ensure!(
                p.is_nil() || accepted_ids.contains(&p),
                "stray-object",
                "object {name} is off the chain and its parent was never a version"
            );
            rep.class("leftover-object-present-at-the-end");
        }
    }
    Ok(chain)
}

fn overlap_classes(log: &[StoreRequest], rep: &mut CaseReport) -> bool {
    let mut nontrivial = false;
    if log.iter().any(|r| r.kind == "cas" && r.name == "latest" && !r.result) {
        rep.class("lost-compare-and-swap (two add_version past 'get latest' before either swap)");
        nontrivial = true;
    }
    // a list of v-P-* by one client between another client's put of v-P-x and its cas
    let mut open_puts: BTreeMap<usize, String> = BTreeMap::new(); // client -> parent prefix
    for r in log {
        match r.kind {
            "put" if r.name.starts_with("v-") => {
                open_puts.insert(r.client, r.name[..35].to_string());
            }
            "cas" if r.name == "latest" => {
                open_puts.remove(&r.client);
            }
            "list" => {
                if open_puts.iter().any(|(c, p)| *c != r.client && *p == r.name) {
                    rep.class("get_child_version overlapped another client's put/swap of the same parent");
                    nontrivial = true;
                }
            }
            _ => {}
        }
    }
    nontrivial
}

pub fn check_case(c: &Case) -> CheckResult {
    let mut rep = CaseReport::default();
    let st = setup(c.initial_chain, c.page_size)?;
    let mut clients: Vec<Client<'_, Vec<Event>>> = vec![];
    for (i, script) in c.scripts.iter().enumerate() {
        let h = st.store.handle(i);
        h.set_gated(true);
        let srv = cloud_server(h, &st.cryptor);
        clients.push(Box::pin(run_client(srv, i, script.clone(), st.initial.clone())));
    }
    let res = run_scheduled(clients, &c.schedule);
    let log = st.store.log();
    judge(&st, &res.outputs, &log, &mut rep, false)?;
    rep.nontrivial = overlap_classes(&log, &mut rep);
    rep.class_if(c.scripts.len() >= 3, "3+-clients");
    Ok(rep)
}

/// Exhaustive interleavings of two clients with short fixed scripts: all binary schedules of a
/// length that covers the longest run (duplicates are harmless).
pub fn exhaustive_cases(len: usize) -> Vec<Case> {
    let scripts: Vec<Vec<Vec<COp>>> = vec![
        vec![vec![COp::Add { stale: false }], vec![COp::Add { stale: false }]],
        vec![vec![COp::Add { stale: false }], vec![COp::GetChild { sel: 0 }, COp::Add { stale: false }]],
        vec![vec![COp::Add { stale: false }, COp::GetChild { sel: 0 }], vec![COp::Add { stale: false }, COp::Walk]],
    ];
    let mut out = vec![];
    for initial_chain in [0u8, 1] {
        for page_size in [1u8, 3] {
            for s in &scripts {
                for bits in 0..(1u32 << len) {
                    let schedule: Vec<u8> = (0..len).map(|i| if bits & (1 << i) != 0 { 255 } else { 0 }).collect();
                    out.push(Case {
                        initial_chain,
                        page_size,
                        scripts: s.clone(),
                        schedule,
                    });
                }
            }
        }
    }
    out
}

/// Clients that construct their server concurrently on a brand-new store (the salt object is
/// created by whoever gets there first; everybody must end up deriving the key from the stored
/// salt), then run their scripts.
pub fn check_init_case(c: &Case) -> CheckResult {
    use taskchampion::server::verif::cloud_server_new;
    let mut rep = CaseReport::default();
    let store = ObjectStore::new(c.page_size as usize);
    set_draws(vec![], Some(255));
    let secret = b"c09 init secret".to_vec();
    let mut clients: Vec<Client<'_, Vec<Event>>> = vec![];
    for (i, script) in c.scripts.iter().enumerate() {
        let h = store.handle(i);
        h.set_gated(true);
        let secret = secret.clone();
        let script = script.clone();
        clients.push(Box::pin(async move {
            match cloud_server_new(h, secret).await {
                Ok(srv) => run_client(srv, i, script, vec![]).await,
                Err(e) => vec![Event::Error(format!("constructing the server failed: {e}"))],
            }
        }));
    }
    let res = run_scheduled(clients, &c.schedule);
    let log = store.log();
    let salts: Vec<&StoreRequest> = log.iter().filter(|r| r.kind == "cas" && r.name == "salt").collect();
    if salts.len() >= 2 {
        rep.class("two-clients-tried-to-create-the-salt");
    }
    let Some((_, salt)) = store.raw_get("salt") else {
        crate::fail!("no-salt", "no salt object after the clients initialised");
    };
    let cryptor = Cryptor::new(&salt, &secret).map_err(|e| Failure::new("cryptor-new", format!("{e}")))?;
    let st = Setup {
        store,
        cryptor,
        initial: vec![],
    };
    judge(&st, &res.outputs, &log, &mut rep, false).map_err(|mut f| {
        f.msg = format!("(clients constructed concurrently on an empty store) {}", f.msg);
        f
    })?;
    rep.nontrivial = salts.len() >= 2;
    Ok(rep)
}

pub fn init_strategy() -> BoxedStrategy<Case> {
    (1u8..4, 2usize..=3)
        .prop_flat_map(|(page_size, clients)| {
            (
                proptest::collection::vec(
                    proptest::collection::vec(
                        prop_oneof![3 => Just(COp::Add { stale: false }), 2 => any::<u16>().prop_map(|sel| COp::GetChild { sel }), 1 => Just(COp::Walk)],
                        1..=3,
                    ),
                    clients,
                ),
                proptest::collection::vec(any::<u8>(), 0..24),
            )
                .prop_map(move |(scripts, schedule)| Case {
                    initial_chain: 0,
                    page_size,
                    scripts,
                    schedule,
                })
        })
        .boxed()
}

pub fn render(c: &Case) -> serde_json::Value {
    serde_json::json!({
        "initial_chain_length": c.initial_chain, "list_page_size": c.page_size,
        "client_scripts": c.scripts.iter().map(|s| format!("{s:?}")).collect::<Vec<_>>(),
        "schedule": c.schedule,
    })
}

pub fn run(e: &Engine) {
    e.assume("the in-memory object store is linearizable per request (what the Service trait documents); list pages are produced lazily in key order from the state at the time each page is requested");
    e.assume("cleanup draws are pinned off here (C10 owns cleanup)");
    let rule = "2-4 clients, each a script of 1-4 calls (add-version on its current or a stale view, get-child of any id seen, add-snapshot for an own accepted version, walk from the root, get-snapshot) over a pre-existing chain of 0-3 versions, list page size 1-3, and a generated schedule at the granularity of single get/put/del/list-page/compare-and-swap requests; history invariants vs. the final quiescent walk; non-trivial = a compare-and-swap of 'latest' was lost, or a get-child's listing fell between another client's put and swap of the same parent";
    e.campaign("schedules", rule, e.tier.pick(400_000, 10_000_000), strategy, render, check_case);
    e.enumerate(
        "two-clients-exhaustive",
        "ALL binary schedules (length 13; thorough 16) of two clients with the scripts {add | add}, {add | get-child, add}, {add, get-child | add, walk}, on initial chains of length 0 and 1, page sizes 1 and 3; non-trivial as above",
        exhaustive_cases(e.tier.pick(13, 16)),
        render,
        check_case,
    );
    e.set_shrink_iters(30);
    e.campaign(
        "concurrent-initialisation",
        "2-3 clients construct their server (salt creation, key derivation from the stored salt) concurrently on a brand-new store under a generated schedule, then add versions / read children / walk; every client and a fresh client that derives its key from the stored salt must be able to read every accepted version; non-trivial = two clients attempted to create the salt",
        e.tier.pick(64, 1500),
        init_strategy,
        render,
        check_init_case,
    );
    e.set_shrink_iters(4000);
    e.fuzz_corpus("c09_sched");
    e.fuzz_campaign("c09_sched", 500000);
}
