//! C12 — snapshots reproduce exactly the state of their version.

use super::common::*;
use crate::engine::model::{parse_version, Model};
use crate::engine::mserver::Req;
use crate::engine::rep::Rep;
use crate::engine::{CaseReport, CheckResult, Engine, Failure};
use flate2::read::ZlibDecoder;
use flate2::write::ZlibEncoder;
use proptest::prelude::*;
use serde::{Deserialize, Serialize};
use serde_json::Value;
use std::io::{Read, Write};
use taskchampion::Uuid;

#[derive(Clone, Debug, PartialEq, Eq, Hash, Serialize, Deserialize)]
pub enum SAction {
    Base(Action),
    /// a new, empty replica syncs from a server that only keeps the latest snapshot and the
    /// versions after it
    Fresh { avoid: bool },
    /// replica r syncs while the server offers it a snapshot with foreign content
    PoisonSync { r: u8 },
}

#[derive(Clone, Debug, PartialEq, Eq, Hash, Serialize, Deserialize)]
pub struct SnapCase {
    pub replicas: u8,
    pub avoid: Vec<bool>,
    /// urgency (0 none, 1 low, 2 high) stated with each accepted version, in order
    pub urgency: Vec<u8>,
    pub strings: Vec<String>,
    pub actions: Vec<SAction>,
}

pub fn strategy(max_actions: usize, big_weight: u32) -> BoxedStrategy<SnapCase> {
    (2u8..=3)
        .prop_flat_map(move |replicas| {
            let act = prop_oneof![
                12 => action_strategy_ext(replicas, 3, big_weight, 7, 9).prop_map(SAction::Base),
                1 => any::<bool>().prop_map(|avoid| SAction::Fresh { avoid }),
                1 => (0..replicas).prop_map(|r| SAction::PoisonSync { r }),
            ];
            (
                proptest::collection::vec(any::<bool>(), replicas as usize),
                proptest::collection::vec(prop_oneof![3 => Just(0u8), 2 => Just(1u8), 3 => Just(2u8)], 0..12),
                proptest::collection::vec("\\PC{0,12}", 1..6),
                proptest::collection::vec(act, 0..=max_actions),
            )
                .prop_map(move |(avoid, urgency, strings, actions)| SnapCase {
                    replicas,
                    avoid,
                    urgency,
                    strings,
                    actions,
                })
        })
        .boxed()
}

/// Independent decoder: zlib, then a JSON object uuid -> {property: value}.
pub fn decode_snapshot(bytes: &[u8]) -> Result<Model, String> {
    let mut text = String::new();
    ZlibDecoder::new(bytes)
        .read_to_string(&mut text)
        .map_err(|e| format!("snapshot is not zlib-compressed UTF-8: {e}"))?;
    let v: Value = serde_json::from_str(&text).map_err(|e| format!("snapshot is not JSON: {e}"))?;
    let obj = v.as_object().ok_or("snapshot is not a JSON object")?;
    let mut m = Model::new();
    for (k, t) in obj {
        let u = Uuid::parse_str(k).map_err(|_| format!("snapshot key {k} is not a uuid"))?;
        let tm = t.as_object().ok_or("snapshot task is not an object")?;
        let mut props = std::collections::BTreeMap::new();
        for (pk, pv) in tm {
            props.insert(
                pk.clone(),
                pv.as_str().ok_or("snapshot property value is not a string")?.to_string(),
            );
        }
        if m.0.insert(u, props).is_some() {
            return Err(format!("task {u} occurs twice in the snapshot"));
        }
    }
    Ok(m)
}

pub fn encode_snapshot(m: &Model) -> Vec<u8> {
    let mut obj = serde_json::Map::new();
    for (u, p) in &m.0 {
        obj.insert(u.to_string(), serde_json::to_value(p).unwrap());
    }
    let mut enc = ZlibEncoder::new(Vec::new(), flate2::Compression::default());
    enc.write_all(serde_json::to_string(&Value::Object(obj)).unwrap().as_bytes())
        .unwrap();
    enc.finish().unwrap()
}

const POISON: u128 = 0xbad0_bad0;

fn replay_upto(w: &World, version: Uuid) -> Result<Model, Failure> {
    let st = w.server.state.borrow();
    let Some(segs) = st.segments_upto(version) else {
        crate::fail!(
            "snapshot-for-unknown-version",
            "a snapshot was uploaded for version {version} which is not on the chain"
        );
    };
    let mut m = Model::new();
    for s in segs {
        m.apply_all(&parse_version(s).map_err(|e| Failure::new("bad-version", e))?);
    }
    Ok(m)
}

/// Check every snapshot received since `from` (index into server.snapshots) and the request
/// log since `log_from`.
fn check_snapshots(
    w: &World,
    from: usize,
    log_from: usize,
    avoid: &[bool],
    rep: &mut CaseReport,
    nontrivial: &mut bool,
) -> Result<(), Failure> {
    let snaps: Vec<(Uuid, Vec<u8>, usize)> = w.server.state.borrow().snapshots[from..].to_vec();
    for (version, bytes, client) in snaps {
        let got = decode_snapshot(&bytes).map_err(|e| Failure::new("snapshot-undecodable", e))?;
        let want = replay_upto(w, version)?;
        crate::ensure!(
            got == want,
            "snapshot-content",
            "the snapshot uploaded by replica {client} for version {version} contains\n  {}\nbut replaying the chain up to that version gives\n  {}",
            got.render(),
            want.render()
        );
        rep.class("snapshot-checked");
        let idx = w.server.state.borrow().index_of(version).unwrap();
        if idx >= 1 && !want.0.is_empty() {
            *nontrivial = true;
            rep.class("snapshot-at-version>=2-with-tasks");
        }
    }
    // a snapshot is uploaded only directly after an accepted add_version whose stated urgency
    // met the replica's threshold
    let st = w.server.state.borrow();
    let log = &st.log[log_from..];
    for (i, rq) in log.iter().enumerate() {
        if let Req::AddSnapshot { client, version, .. } = rq {
            let prev = log[..i].iter().rev().find(|p| match p {
                Req::GetChild { client: c, .. }
                | Req::AddVersion { client: c, .. }
                | Req::AddSnapshot { client: c, .. }
                | Req::GetSnapshot { client: c, .. }
                | Req::Failed { client: c, .. } => c == client,
            });
            let threshold = if avoid.get(*client).copied().unwrap_or(false) { 2 } else { 1 };
            match prev {
                Some(Req::AddVersion {
                    accepted: Ok(v),
                    urgency,
                    ..
                }) if v == version && *urgency >= threshold => {}
                other => {
                    return Err(Failure::new(
                        "snapshot-not-requested",
                        format!(
                            "replica {client} uploaded a snapshot for {version} but its preceding request was {other:?} (threshold urgency {threshold})"
                        ),
                    ))
                }
            }
            // inside a multi-batch sync?
            let pushes = log
                .iter()
                .filter(|p| matches!(p, Req::AddVersion { client: c, accepted: Ok(_), .. } if c == client))
                .count();
            if pushes >= 2 {
                rep.class("snapshot-in-multi-batch-sync");
            }
        }
    }
    Ok(())
}

pub fn check_case(c: &SnapCase) -> CheckResult {
    let n = c.replicas as usize;
    let mut w = World::new(n);
    for r in &mut w.realizers {
        r.strings = c.strings.clone();
    }
    w.server.state.borrow_mut().urgency = c.urgency.iter().copied().collect();
    let mut avoid = c.avoid.clone();
    avoid.resize(n, false);
    let mut rep = CaseReport::default();
    let mut nontrivial = false;
    let poison_uuid = Uuid::from_u128(POISON);

    for (ai, a) in c.actions.iter().enumerate() {
        let snaps_before = w.server.state.borrow().snapshots.len();
        let log_before = w.server.state.borrow().log.len();
        match a {
            SAction::Base(Action::Sync { r }) => {
                let r = *r as usize % n;
                let av = avoid[r];
                let World { reps, handles, .. } = &mut w;
                reps[r].sync(&mut handles[r], av).map_err(|e| {
                    Failure::new("sync-error", format!("action {ai}: sync of replica {r} failed: {e}"))
                })?;
                w.check_replica_invariant(r, &format!("after action {ai} (sync)"))?;
            }
            SAction::Base(other) => {
                let mut flags = RunFlags::default();
                run_actions(&mut w, std::slice::from_ref(other), &mut rep, &mut flags)?;
            }
            SAction::Fresh { avoid: av } => {
                // the server keeps only the most recent snapshot and what follows it
                let (offer, hide) = {
                    let st = w.server.state.borrow();
                    match st.snapshots.last() {
                        Some((v, b, _)) => (
                            Some((*v, b.clone())),
                            st.index_of(*v).map(|i| i + 1).unwrap_or(0),
                        ),
                        None => (None, 0),
                    }
                };
                let r = w.add_replica(Rep::mem(&pool()));
                w.realizers[r].strings = c.strings.clone();
                avoid.push(*av);
                *w.ctls[r].offer.borrow_mut() = offer.clone();
                w.ctls[r].hide_before.set(hide);
                let later = w.server.state.borrow().versions.len() - hide;
                let World { reps, handles, .. } = &mut w;
                reps[r].sync(&mut handles[r], *av).map_err(|e| {
                    Failure::new(
                        "fresh-sync-error",
                        format!("action {ai}: sync of a fresh replica failed: {e}"),
                    )
                })?;
                let want = replay_upto(&w, w.server.state.borrow().latest())?;
                let got = w.reps[r].tasks();
                crate::ensure!(
                    got == want,
                    "fresh-replica-state",
                    "action {ai}: a fresh replica started from {} and {later} later versions holds\n  {}\nbut the full chain replay gives\n  {}",
                    if offer.is_some() { "a snapshot" } else { "nothing" },
                    got.render(),
                    want.render()
                );
                rep.class("fresh-replica");
                if offer.is_some() {
                    rep.class("fresh-replica-from-snapshot");
                    if later > 0 {
                        nontrivial = true;
                        rep.class("fresh-replica-from-snapshot-with-later-versions");
                    }
                }
                // from now on it is an ordinary client with a full view
                *w.ctls[r].offer.borrow_mut() = None;
            }
            SAction::PoisonSync { r } => {
                let r = *r as usize % w.reps.len();
                let d = w.reps[r].dump();
                let holds_data = !d.tasks.0.is_empty() || !d.unsynced.is_empty() || !d.base.is_nil();
                if holds_data {
                    let mut poison = Model::new();
                    poison.0.insert(
                        poison_uuid,
                        [("poison".to_string(), "yes".to_string())].into_iter().collect(),
                    );
                    let latest = w.server.state.borrow().latest();
                    *w.ctls[r].offer.borrow_mut() = Some((latest, encode_snapshot(&poison)));
                    let av = avoid[r];
                    let World { reps, handles, .. } = &mut w;
                    let res = reps[r].sync(&mut handles[r], av);
                    *w.ctls[r].offer.borrow_mut() = None;
                    res.map_err(|e| {
                        Failure::new(
                            "poison-sync-error",
                            format!("action {ai}: sync of non-empty replica {r} failed while a snapshot was on offer: {e}"),
                        )
                    })?;
                    let t = w.reps[r].tasks();
                    crate::ensure!(
                        !t.0.contains_key(&poison_uuid),
                        "snapshot-replaced-data",
                        "action {ai}: replica {r} held data but took over the content of an offered snapshot"
                    );
                    w.check_replica_invariant(r, &format!("after action {ai} (poison sync)"))?;
                    rep.class("non-empty-replica-offered-a-snapshot");
                }
            }
        }
        check_snapshots(&w, snaps_before, log_before, &avoid, &mut rep, &mut nontrivial)?;
    }
    let log_before = w.server.state.borrow().log.len();
    let snaps_before = w.server.state.borrow().snapshots.len();
    // quiesce with each replica's own avoid flag
    for _round in 0..2 {
        for r in 0..w.reps.len() {
            let av = avoid[r];
            let World { reps, handles, .. } = &mut w;
            reps[r]
                .sync(&mut handles[r], av)
                .map_err(|e| Failure::new("sync-error", format!("quiesce: sync of replica {r} failed: {e}")))?;
        }
    }
    check_snapshots(&w, snaps_before, log_before, &avoid, &mut rep, &mut nontrivial)?;
    w.check_converged()?;
    rep.nontrivial = nontrivial;
    Ok(rep)
}

pub fn render(c: &SnapCase) -> Value {
    serde_json::json!({
        "replicas": c.replicas, "avoid_snapshots": c.avoid, "urgency_script": c.urgency,
        "strings": c.strings,
        "actions": c.actions.iter().map(|a| match a {
            SAction::Base(a) => render_action(a),
            SAction::Fresh { avoid } => format!("fresh replica (avoid_snapshots={avoid}) syncs from snapshot + later versions"),
            SAction::PoisonSync { r } => format!("R{r}: sync while a foreign snapshot is on offer"),
        }).collect::<Vec<_>>(),
    })
}

#[derive(Clone, Debug, PartialEq, Eq, Hash, Serialize, Deserialize)]
pub struct LargeCase {
    pub tasks: u16,
    pub strings: Vec<String>,
    /// how many of the tasks are changed again after the snapshot
    pub later: u16,
}

/// Thousands of tasks: the snapshot of a large task set must equal the chain replay, and a fresh
/// replica starting from it plus later versions must equal the full replay.
pub fn check_large(c: &LargeCase) -> CheckResult {
    let mut rep = CaseReport::default();
    let mut w = World::new(1);
    let n = c.tasks as usize;
    let strings = if c.strings.is_empty() { vec!["x".to_string()] } else { c.strings.clone() };
    // build in commits of 200 tasks
    let mut i = 0;
    while i < n {
        let mut ops = vec![];
        for k in i..(i + 200).min(n) {
            let uuid = Uuid::from_u128(0x1a46e_0000 + k as u128);
            ops.push(taskchampion::Operation::Create { uuid });
            if k % 7 != 0 {
                // every 7th task stays empty
                for (pi, s) in strings.iter().enumerate().take(1 + k % 3) {
                    ops.push(taskchampion::Operation::Update {
                        uuid,
                        property: format!("{}{}", s, pi),
                        old_value: None,
                        value: Some(format!("{}-{k}", strings[(k + pi) % strings.len()])),
                        timestamp: crate::engine::model::ts(0),
                    });
                }
            }
        }
        w.reps[0].commit(ops).map_err(|e| Failure::new("commit-error", format!("{e}")))?;
        i += 200;
    }
    // the last accepted version is answered with urgency high
    w.server.state.borrow_mut().urgency = vec![2; 64].into();
    w.sync(0).map_err(|e| Failure::new("sync-error", format!("sync failed: {e}")))?;
    let mut nontrivial = false;
    let avoid = [false];
    check_snapshots(&w, 0, 0, &avoid, &mut rep, &mut nontrivial)?;
    let nsnap = w.server.state.borrow().snapshots.len();
    crate::ensure!(nsnap >= 1, "no-snapshot", "no snapshot was uploaded although urgency high was stated");
    // later changes
    let mut ops = vec![];
    for k in 0..(c.later as usize).min(n) {
        let uuid = Uuid::from_u128(0x1a46e_0000 + k as u128);
        ops.push(taskchampion::Operation::Update {
            uuid,
            property: "later".into(),
            old_value: None,
            value: Some("yes".into()),
            timestamp: crate::engine::model::ts(1),
        });
    }
    w.server.state.borrow_mut().urgency.clear();
    if !ops.is_empty() {
        w.reps[0].commit(ops).map_err(|e| Failure::new("commit-error", format!("{e}")))?;
        w.sync(0).map_err(|e| Failure::new("sync-error", format!("sync failed: {e}")))?;
    }
    // fresh replica: snapshot + later versions only
    let (offer, hide) = {
        let st = w.server.state.borrow();
        let (v, b, _) = st.snapshots.last().unwrap().clone();
        (Some((v, b)), st.index_of(v).map(|i| i + 1).unwrap_or(0))
    };
    let r = w.add_replica(Rep::mem(&pool()));
    *w.ctls[r].offer.borrow_mut() = offer;
    w.ctls[r].hide_before.set(hide);
    w.sync(r).map_err(|e| Failure::new("fresh-sync-error", format!("sync of a fresh replica failed: {e}")))?;
    let want = replay_upto(&w, w.server.state.borrow().latest())?;
    let got = w.reps[r].tasks();
    crate::ensure!(
        got == want,
        "fresh-replica-state",
        "a fresh replica started from a snapshot of {n} tasks holds {} tasks that differ from the full replay ({} tasks)",
        got.0.len(),
        want.0.len()
    );
    rep.class("large-task-set");
    rep.nontrivial = n >= 100;
    Ok(rep)
}

pub fn large_strategy(max_tasks: u16) -> BoxedStrategy<LargeCase> {
    (100..max_tasks, proptest::collection::vec("\\PC{1,10}", 1..5), 0u16..50)
        .prop_map(|(tasks, strings, later)| LargeCase { tasks, strings, later })
        .boxed()
}

// ---------------------------------------------------------------------------------------------
// snapshots through the real backends that request them (HTTP client, object store)

use super::c08::{Backend, Bk};
use crate::engine::exec::block_on;
use std::cell::RefCell;
use std::rc::Rc;
use taskchampion::server::{AddVersionResult, GetVersionResult, Server, SnapshotUrgency};

#[derive(Clone, Debug)]
pub enum Ev {
    AddVersion { result: Result<Uuid, Uuid>, urgency: SnapshotUrgency },
    AddSnapshot { version: Uuid, bytes: Vec<u8> },
    GetChild,
    GetSnapshot(Option<Uuid>),
}

/// Records what a replica asked of its server handle and what it was told.
pub struct Recorder {
    pub inner: Box<dyn Server>,
    pub log: Rc<RefCell<Vec<Ev>>>,
    /// every accepted version, in order, over all handles: (id, parent, bytes as submitted)
    pub chain: Rc<RefCell<Vec<(Uuid, Uuid, Vec<u8>)>>>,
}

#[async_trait::async_trait(?Send)]
impl Server for Recorder {
    async fn add_version(
        &mut self,
        parent: Uuid,
        seg: Vec<u8>,
    ) -> Result<(AddVersionResult, SnapshotUrgency), taskchampion::Error> {
        let (r, u) = self.inner.add_version(parent, seg.clone()).await?;
        if let AddVersionResult::Ok(v) = &r {
            self.chain.borrow_mut().push((*v, parent, seg));
        }
        self.log.borrow_mut().push(Ev::AddVersion {
            result: match &r {
                AddVersionResult::Ok(v) => Ok(*v),
                AddVersionResult::ExpectedParentVersion(v) => Err(*v),
            },
            urgency: u,
        });
        Ok((r, u))
    }
    async fn get_child_version(&mut self, parent: Uuid) -> Result<GetVersionResult, taskchampion::Error> {
        let r = self.inner.get_child_version(parent).await?;
        self.log.borrow_mut().push(Ev::GetChild);
        Ok(r)
    }
    async fn add_snapshot(&mut self, version: Uuid, snapshot: Vec<u8>) -> Result<(), taskchampion::Error> {
        self.log.borrow_mut().push(Ev::AddSnapshot { version, bytes: snapshot.clone() });
        self.inner.add_snapshot(version, snapshot).await
    }
    async fn get_snapshot(&mut self) -> Result<Option<(Uuid, Vec<u8>)>, taskchampion::Error> {
        let r = self.inner.get_snapshot().await?;
        self.log.borrow_mut().push(Ev::GetSnapshot(r.as_ref().map(|x| x.0)));
        Ok(r)
    }
}

#[derive(Clone, Debug, PartialEq, Eq, Hash, Serialize, Deserialize)]
pub struct BkSnapCase {
    pub backend: Backend,
    pub avoid: Vec<bool>,
    /// HTTP: urgency stated with each accepted version (0 none, 1 low, 2 high); object store: the
    /// same numbers select the server's random draws (its urgency is high while it has no
    /// snapshot, whatever is drawn)
    pub urgency: Vec<u8>,
    pub strings: Vec<String>,
    pub actions: Vec<Action>,
    pub fresh_avoid: bool,
}

pub fn bk_strategy(backend: Backend, max: usize) -> BoxedStrategy<BkSnapCase> {
    (
        proptest::collection::vec(any::<bool>(), 2),
        proptest::collection::vec(prop_oneof![3 => Just(0u8), 2 => Just(1u8), 3 => Just(2u8)], 0..16),
        proptest::collection::vec("\\PC{0,12}", 1..6),
        proptest::collection::vec(action_strategy_ext(2, 3, 0, 7, 9), 1..=max),
        any::<bool>(),
    )
        .prop_map(move |(avoid, urgency, strings, actions, fresh_avoid)| BkSnapCase {
            backend,
            avoid,
            urgency,
            strings,
            actions,
            fresh_avoid,
        })
        .boxed()
}

/// (version id, replay up to and including it) for every accepted version, from what the
/// replicas submitted.
fn replay_recorded(chain: &[(Uuid, Uuid, Vec<u8>)]) -> Result<Vec<(Uuid, Model)>, Failure> {
    let mut out = vec![];
    let mut m = Model::new();
    let mut p = Uuid::nil();
    for (id, parent, seg) in chain {
        crate::ensure!(
            out.is_empty() || *parent == p,
            "accepted-wrong-parent",
            "version {id} was accepted on top of {parent} although the latest accepted version was {p}"
        );
        m.apply_all(&parse_version(seg).map_err(|e| Failure::new("bad-version", e))?);
        p = *id;
        out.push((*id, m.clone()));
    }
    Ok(out)
}

pub fn check_backends(c: &BkSnapCase) -> CheckResult {
    let mut rep = CaseReport::default();
    let mut bk = Bk::open(c.backend, 4)?;
    match c.backend {
        Backend::Http => {
            bk.http().unwrap().state.lock().unwrap().urgency_script = c.urgency.iter().copied().collect();
        }
        Backend::ObjectStore => {
            // draws below 2 mean high, below 25 low (and a draw is also taken for the cleanup decision)
            let q: Vec<u8> = c.urgency.iter().map(|u| match u { 0 => 200, 1 => 10, _ => 0 }).collect();
            taskchampion::server::verif::set_draws(q, Some(255));
        }
        _ => {}
    }
    if let Some(st) = bk.store() {
        // nothing stored in this campaign is older than the retention age (a replica whose base
        // version was cleaned away behind a snapshot cannot sync any more, by design)
        let now = std::time::SystemTime::now().duration_since(std::time::UNIX_EPOCH).map(|d| d.as_secs()).unwrap_or(0);
        st.set_clock(now + 1000);
    }
    let recorded: Rc<RefCell<Vec<(Uuid, Uuid, Vec<u8>)>>> = Rc::new(RefCell::new(vec![]));
    let logs: Vec<Rc<RefCell<Vec<Ev>>>> = (0..3).map(|_| Rc::new(RefCell::new(vec![]))).collect();
    let mut handles: Vec<Box<dyn Server>> = vec![];
    for h in 0..3 {
        bk.make_handle(h)?;
        let inner = bk.handles[h].take().unwrap();
        handles.push(Box::new(Recorder { inner, log: logs[h].clone(), chain: recorded.clone() }));
    }
    let mut reps = vec![Rep::mem(&pool()), Rep::mem(&pool())];
    let mut rz = [Realizer::new(0), Realizer::new(1)];
    for r in &mut rz {
        r.strings = c.strings.clone();
    }
    let mut avoid = c.avoid.clone();
    avoid.resize(2, false);
    avoid.push(c.fresh_avoid);
    let mut uploaded: Vec<(Uuid, Vec<u8>)> = vec![];
    let mut nontrivial = false;

    // the upload rule and the content of everything uploaded during the last sync of replica r
    let after_sync = |r: usize,
                          from: usize,
                          bk: &mut Bk,
                          uploaded: &mut Vec<(Uuid, Vec<u8>)>,
                          rep: &mut CaseReport,
                          nontrivial: &mut bool|
     -> Result<(), Failure> {
        let log = logs[r].borrow().clone();
        let threshold = if avoid[r] { SnapshotUrgency::High } else { SnapshotUrgency::Low };
        for i in from..log.len() {
            if let Ev::AddSnapshot { version, bytes } = &log[i] {
                match i.checked_sub(1).map(|j| &log[j]) {
                    Some(Ev::AddVersion { result: Ok(v), urgency }) if v == version && *urgency >= threshold => {}
                    other => crate::fail!(
                        "snapshot-not-requested",
                        "replica {r} uploaded a snapshot for {version} through {:?}, but what came right before was {other:?} (its threshold is {threshold:?})",
                        c.backend
                    ),
                }
                let got = decode_snapshot(bytes).map_err(|e| Failure::new("snapshot-undecodable", e))?;
                let chain = replay_recorded(&recorded.borrow())?;
                let Some((pos, (_, want))) = chain.iter().enumerate().find(|(_, (v, _))| v == version) else {
                    crate::fail!("snapshot-for-unknown-version", "a snapshot was uploaded for version {version}, which is not an accepted version");
                };
                crate::ensure!(
                    &got == want,
                    "snapshot-content",
                    "the snapshot uploaded by replica {r} for version {version} (position {pos}) through {:?} contains\n  {}\nbut replaying the accepted versions up to that one gives\n  {}",
                    c.backend,
                    got.render(),
                    want.render()
                );
                uploaded.push((*version, bytes.clone()));
                rep.class("snapshot-checked");
                if pos >= 1 && !want.0.is_empty() {
                    *nontrivial = true;
                    rep.class("snapshot-at-version>=2-with-tasks");
                }
                // what the backend now hands out is an uploaded snapshot, intact
                bk.drop_handle(3);
                let s = bk.handle(3, true)?;
                let served = block_on(s.get_snapshot()).map_err(|e| Failure::new("get-snapshot-error", format!("{e}")))?;
                match served {
                    None => crate::fail!("snapshot-lost", "a snapshot for {version} was uploaded through {:?} but none is served", c.backend),
                    Some((v, b)) => crate::ensure!(
                        uploaded.iter().any(|(uv, ub)| *uv == v && *ub == b),
                        "snapshot-not-intact",
                        "{:?} serves a snapshot labelled {v} ({} bytes) that is not one of the uploaded (version, bytes) pairs",
                        c.backend,
                        b.len()
                    ),
                }
            }
        }
        Ok(())
    };

    for (ai, a) in c.actions.iter().enumerate() {
        match a {
            Action::Commit { r, intents } => {
                let r = *r as usize % 2;
                let mut local = reps[r].tasks();
                let mut ops = vec![];
                rz[r].realize(intents, &mut local, &mut ops);
                reps[r].commit(ops).map_err(|e| Failure::new("commit-error", format!("{e}")))?;
            }
            Action::Sync { r } => {
                let r = *r as usize % 2;
                let from = logs[r].borrow().len();
                let had_data = {
                    let d = reps[r].dump();
                    !d.tasks.0.is_empty() || !d.unsynced.is_empty() || !d.base.is_nil()
                };
                reps[r].sync(&mut handles[r], avoid[r]).map_err(|e| {
                    Failure::new("sync-error", format!("action {ai}: sync of replica {r} through {:?} failed: {e:?}", c.backend))
                })?;
                if had_data && !uploaded.is_empty() {
                    rep.class("non-empty-replica-syncs-while-the-backend-holds-a-snapshot");
                }
                after_sync(r, from, &mut bk, &mut uploaded, &mut rep, &mut nontrivial)?;
            }
            Action::Big { .. } => {}
        }
    }
    for _ in 0..2 {
        for r in 0..2 {
            let from = logs[r].borrow().len();
            reps[r].sync(&mut handles[r], avoid[r]).map_err(|e| {
                Failure::new("sync-error", format!("quiesce: sync of replica {r} through {:?} failed: {e:?}", c.backend))
            })?;
            after_sync(r, from, &mut bk, &mut uploaded, &mut rep, &mut nontrivial)?;
        }
    }
    // a brand-new replica: from the served snapshot (if any) plus the later versions
    let chain = replay_recorded(&recorded.borrow())?;
    let full = chain.last().map(|x| x.1.clone()).unwrap_or_default();
    let mut fresh = Rep::mem(&pool());
    let from = logs[2].borrow().len();
    fresh.sync(&mut handles[2], c.fresh_avoid).map_err(|e| {
        Failure::new("fresh-sync-error", format!("sync of a fresh replica through {:?} failed: {e:?}", c.backend))
    })?;
    let got = fresh.tasks();
    let started_from = logs[2].borrow()[from..].iter().find_map(|e| match e {
        Ev::GetSnapshot(v) => Some(*v),
        _ => None,
    });
    crate::ensure!(
        got == full,
        "fresh-replica-state",
        "a fresh replica that synced through {:?} (snapshot offered: {started_from:?}) holds\n  {}\nbut the replay of all accepted versions gives\n  {}",
        c.backend,
        got.render(),
        full.render()
    );
    rep.class("fresh-replica");
    if let Some(Some(v)) = started_from {
        rep.class("fresh-replica-from-snapshot");
        let pos = chain.iter().position(|(id, _)| *id == v);
        if pos.map(|p| p + 1 < chain.len()).unwrap_or(false) {
            nontrivial = true;
            rep.class("fresh-replica-from-snapshot-with-later-versions");
        }
    }
    for r in 0..2 {
        let t = reps[r].tasks();
        crate::ensure!(
            t == full,
            "diverged-from-chain",
            "after quiescence through {:?} replica {r} holds\n  {}\nbut the accepted versions replay to\n  {}",
            c.backend,
            t.render(),
            full.render()
        );
    }
    if let Some(h) = bk.http() {
        let st = h.state.lock().unwrap();
        crate::ensure!(st.protocol_errors.is_empty(), "http-protocol", "the HTTP client violated http.md: {:?}", st.protocol_errors);
    }
    rep.class(match c.backend {
        Backend::Http => "backend:http",
        Backend::ObjectStore => "backend:object-store",
        _ => "backend:other",
    });
    rep.nontrivial = nontrivial;
    Ok(rep)
}

pub fn render_bk(c: &BkSnapCase) -> Value {
    serde_json::json!({
        "backend": format!("{:?}", c.backend), "avoid_snapshots": c.avoid, "urgency_script": c.urgency,
        "fresh_replica_avoids_snapshots": c.fresh_avoid, "strings": c.strings,
        "actions": c.actions.iter().map(render_action).collect::<Vec<_>>(),
    })
}

pub fn run(e: &Engine) {
    e.assume("snapshots and versions are observed in plaintext at the Server trait boundary of the harness ModelServer");
    let rule = "C01-style histories with generated Unicode property names/values, an urgency script, avoid_snapshots per replica, fresh replicas and foreign-snapshot offers; \
non-trivial = a checked snapshot at chain position >= 2 with >= 1 task, or a fresh replica that started from a snapshot and applied later versions";
    e.campaign("snapshots", rule, e.tier.pick(20_000, 600_000), || strategy(e.tier.pick(24, 60), 0), render, check_case);
    e.set_shrink_iters(60);
    e.campaign(
        "snapshots-large",
        "task sets of 100-1500 tasks (thorough: up to 6000) with generated Unicode property names and values and empty tasks, committed in chunks, snapshot requested with the last version, then later changes; snapshot == chain replay at its version; a fresh replica from snapshot + later versions == full replay",
        e.tier.pick(12, 200),
        || large_strategy(e.tier.pick(1500, 6000)),
        |c| serde_json::json!({"tasks": c.tasks, "strings": c.strings, "changed_after_snapshot": c.later}),
        check_large,
    );
    e.set_shrink_iters(4000);
    e.campaign(
        "snapshots-multibatch",
        "as 'snapshots' with pending changes above the batching threshold, so that urgency can be stated between two batches of one sync",
        e.tier.pick(300, 6000),
        || strategy(10, 4),
        render,
        check_case,
    );
    for b in [Backend::Http, Backend::ObjectStore] {
        e.set_shrink_iters(400);
        e.campaign(
            &format!("snapshots-through-{b:?}"),
            "two real replicas (avoid_snapshots generated per replica) run a generated commit/sync history through the real HTTP client (harness server stating a generated urgency with every accepted version) or the object-store server (urgency from generated draws; high while it has no snapshot); every snapshot the replica hands to the backend must directly follow an accepted version whose reported urgency met the replica's threshold, must decode to the replay of the versions the backend accepted (recorded at the Server trait boundary) up to its version, and the backend must then serve an uploaded (version, bytes) pair; finally a brand-new replica syncs through a fresh handle (snapshot + later versions) and must equal the full replay; non-trivial = a checked snapshot at chain position >= 2 with tasks, or a fresh replica that started from a snapshot and applied later versions",
            e.tier.pick(400, 12_000),
            move || bk_strategy(b, 14),
            render_bk,
            check_backends,
        );
    }
}
