//! C18 — reading tasks never panics, whatever the stored data; and what can be interpreted is
//! interpreted as tasks.md says.

use super::common::World;
use crate::engine::exec::{block_on, last_panic_location, panic_message};
use crate::engine::model::task_uuid;
use crate::engine::{CaseReport, CheckResult, Engine, Failure};
use chrono::Utc;
use proptest::prelude::*;
use serde::{Deserialize, Serialize};
use std::collections::{BTreeMap, BTreeSet};
use std::panic::{catch_unwind, AssertUnwindSafe};
use taskchampion::{Operations, Status, Tag, TaskData, Uuid};

#[derive(Clone, Debug, PartialEq, Eq, Hash, Serialize, Deserialize)]
pub struct Case {
    pub sqlite: bool,
    /// per task: list of (key, value)
    pub tasks: Vec<Vec<(String, String)>>,
    /// later changes (task index, kind) committed WITHOUT a working-set rebuild, so that the
    /// working set no longer matches the tasks: 0 remove the status, 1 remove every property,
    /// 2 delete the task, 3 unknown status, 4 make it pending (twice in the working set is not
    /// possible, but an entry for a task that is listed already is requested)
    #[serde(default)]
    pub after: Vec<(u8, u8)>,
}

const TS_KEYS: [&str; 7] = ["entry", "wait", "modified", "due", "start", "end", "scheduled"];

pub fn hostile_int() -> BoxedStrategy<String> {
    prop_oneof![
        // plain, in the calendar range
        4 => (-100_000_000_000i64..100_000_000_000i64).prop_map(|v| v.to_string()),
        2 => (0i64..4_000_000_000i64).prop_map(|v| v.to_string()),
        // i64 but astronomically outside any calendar
        3 => prop_oneof![
            Just(i64::MAX), Just(i64::MIN), Just(99_999_999_999_999_999i64), Just(-99_999_999_999_999_999i64),
            1_000_000_000_000_000i64..i64::MAX, i64::MIN..-1_000_000_000_000_000i64
        ].prop_map(|v| v.to_string()),
        // beyond i64
        1 => "[1-9][0-9]{19,40}",
        1 => "-[1-9][0-9]{19,40}",
        // integer syntax tasks.md does not describe
        2 => prop_oneof![Just("+5".to_string()), Just("007".to_string()), Just("-0".to_string()), Just("+99999999999999999".to_string()), Just("000000000000000000001".to_string())],
        // not integers
        3 => prop_oneof![Just(String::new()), Just(" 12".to_string()), Just("12 ".to_string()), Just("1e9".to_string()), Just("12.5".to_string()), Just("0x1f".to_string()), Just("١٢٣".to_string()), Just("NaN".to_string()), Just("-".to_string()), Just("1_000".to_string())],
        1 => "\\PC{0,6}",
    ]
    .boxed()
}

fn hostile_key() -> BoxedStrategy<String> {
    let tag_body = prop_oneof![
        3 => "[a-z][a-z0-9_]{0,6}",
        1 => Just(String::new()),
        1 => Just("a b".to_string()),
        1 => Just(" lead".to_string()),
        1 => Just("1abc".to_string()),
        1 => Just("+plus".to_string()),
        1 => Just("-".to_string()),
        1 => Just("in:fix".to_string()),
        1 => Just(":colon".to_string()),
        1 => Just("PENDING".to_string()),
        1 => Just("WAITING".to_string()),
        1 => Just("NOSUCHTAG".to_string()),
        1 => Just("ünï".to_string()),
        1 => Just("tab\there".to_string()),
        1 => "\\PC{1,5}",
    ];
    let dep_body = prop_oneof![
        3 => (0usize..6).prop_map(|i| task_uuid(i).to_string()),
        1 => Just(Uuid::from_u128(0xdead).to_string()),
        1 => Just(String::new()),
        1 => Just("xyz".to_string()),
        1 => Just("00000000-0000-0000-0000-00000000".to_string()),
        1 => Just("g0000000-0000-0000-0000-000000000000".to_string()),
        1 => "\\PC{1,8}",
    ];
    prop_oneof![
        6 => proptest::sample::select(TS_KEYS.to_vec()).prop_map(|s| s.to_string()),
        2 => Just("status".to_string()),
        1 => Just("description".to_string()),
        1 => Just("priority".to_string()),
        4 => tag_body.prop_map(|b| format!("tag_{b}")),
        4 => hostile_int().prop_map(|b| format!("annotation_{b}")),
        4 => dep_body.prop_map(|b| format!("dep_{b}")),
        2 => prop_oneof![Just("uda".to_string()), Just("ns.key".to_string()), Just(".".to_string()), Just("a.b.c".to_string()), Just(String::new()), Just("tag".to_string()), Just("dep".to_string()), Just("annotation".to_string())],
        1 => "\\PC{0,8}",
    ]
    .boxed()
}

fn value_for(key: &str) -> BoxedStrategy<String> {
    if TS_KEYS.contains(&key) {
        hostile_int()
    } else if key == "status" {
        prop_oneof![
            4 => Just("pending".to_string()), 2 => Just("completed".to_string()), 2 => Just("deleted".to_string()),
            2 => Just("recurring".to_string()), 1 => Just("Pending".to_string()), 1 => Just(String::new()),
            1 => Just("P".to_string()), 1 => "\\PC{0,6}"
        ]
        .boxed()
    } else {
        prop_oneof![3 => Just(String::new()), 3 => "\\PC{0,8}", 1 => hostile_int()].boxed()
    }
}

pub fn strategy(sqlite_weight: u32) -> BoxedStrategy<Case> {
    let kv = hostile_key().prop_flat_map(|k| {
        let vk = k.clone();
        value_for(&vk).prop_map(move |v| (k.clone(), v))
    });
    (
        prop_oneof![8 => Just(false), sqlite_weight => Just(true)],
        proptest::collection::vec(proptest::collection::vec(kv, 0..10), 1..5),
        proptest::collection::vec((0u8..5, 0u8..5), 0..4),
    )
        .prop_map(|(sqlite, tasks, after)| Case { sqlite, tasks, after })
        .boxed()
}

/// Decimal integer as tasks.md describes it: optional minus, digits, no leading zeros.
fn plain_decimal(s: &str) -> Option<i128> {
    let body = s.strip_prefix('-').unwrap_or(s);
    if body.is_empty() || !body.bytes().all(|b| b.is_ascii_digit()) {
        return None;
    }
    if body.len() > 1 && body.starts_with('0') {
        return None;
    }
    if s == "-0" {
        return None;
    }
    if body.len() > 38 {
        return Some(i128::MAX); // certainly out of range
    }
    s.parse::<i128>().ok()
}

/// Could Rust's integer parser read this although tasks.md does not describe the syntax?
fn odd_integer_syntax(s: &str) -> bool {
    plain_decimal(s).is_none() && s.parse::<i128>().is_ok()
}

#[derive(Debug, PartialEq)]
enum Expect {
    /// must read as this instant
    At(i64),
    /// must read as None / be skipped
    Nothing,
    DontCare,
}

fn expect_ts(v: &str) -> Expect {
    match plain_decimal(v) {
        Some(n) if (-200_000_000_000..=200_000_000_000).contains(&n) => Expect::At(n as i64),
        // far outside any calendar: cannot be interpreted
        Some(n) if n.abs() >= 1_000_000_000_000_000 => Expect::Nothing,
        Some(_) => Expect::DontCare, // near chrono's own limits
        None => {
            if odd_integer_syntax(v) {
                Expect::DontCare
            } else {
                Expect::Nothing
            }
        }
    }
}

/// Tag validity as documented on `Tag`.
fn doc_valid_user_tag(s: &str) -> Option<bool> {
    if s.is_empty() {
        return Some(false);
    }
    if s.chars().all(|c| c.is_ascii_uppercase()) {
        return None; // reserved for synthetic tags: don't-care
    }
    let first = s.chars().next().unwrap();
    if first.is_whitespace() || first.is_ascii_digit() || "+-*/()<>^!%=~".contains(first) {
        return Some(false);
    }
    if s.chars().skip(1).any(|c| c.is_whitespace() || c == ':') {
        return Some(false);
    }
    Some(true)
}

fn guarded<T>(what: &str, f: impl FnOnce() -> T) -> Result<T, Failure> {
    match catch_unwind(AssertUnwindSafe(f)) {
        Ok(v) => Ok(v),
        Err(p) => Err(Failure::new(
            format!("read-panic:{what}"),
            format!(
                "{what} panicked: {} (at {})",
                panic_message(&p),
                last_panic_location()
            ),
        )),
    }
}

pub fn check_case(c: &Case) -> CheckResult {
    let mut rep = CaseReport::default();
    let mut w = World::new(1);
    if c.sqlite {
        w.make_sqlite(0)?;
        rep.class("sqlite");
    }
    // store through the low-level interface, as another application or a sync would
    let mut ops = Operations::new();
    let mut maps: Vec<BTreeMap<String, String>> = vec![];
    for (i, kvs) in c.tasks.iter().enumerate() {
        let uuid = task_uuid(i);
        let mut td = TaskData::create(uuid, &mut ops);
        let mut m = BTreeMap::new();
        for (k, v) in kvs {
            td.update(k.clone(), Some(v.clone()), &mut ops);
            m.insert(k.clone(), v.clone());
        }
        maps.push(m);
    }
    w.reps[0]
        .commit(ops)
        .map_err(|e| Failure::new("commit-error", format!("storing the task maps failed: {e}")))?;
    guarded("Replica::rebuild_working_set", || {
        block_on(w.reps[0].replica.rebuild_working_set(true))
    })?
    .map_err(|e| Failure::new("api-error", format!("{e}")))?;
    let now = Utc::now().timestamp();
    let mut nontrivial = false;

    // --- replica-level reads
    let r = &mut w.reps[0].replica;
    let all = guarded("Replica::all_tasks", || block_on(r.all_tasks()))?
        .map_err(|e| Failure::new("api-error", format!("{e}")))?;
    guarded("Replica::all_task_data", || block_on(r.all_task_data()))?.ok();
    guarded("Replica::all_task_uuids", || block_on(r.all_task_uuids()))?.ok();
    guarded("Replica::pending_tasks", || block_on(r.pending_tasks()))?.ok();
    guarded("Replica::pending_task_data", || block_on(r.pending_task_data()))?.ok();
    guarded("Replica::num_local_operations", || block_on(r.num_local_operations()))?.ok();
    guarded("Replica::num_undo_points", || block_on(r.num_undo_points()))?.ok();
    guarded("Replica::get_undo_operations", || block_on(r.get_undo_operations()))?.ok();
    let ws = guarded("Replica::working_set", || block_on(r.working_set()))?
        .map_err(|e| Failure::new("api-error", format!("{e}")))?;
    guarded("WorkingSet reads", || {
        let _ = (ws.len(), ws.largest_index(), ws.is_empty());
        for i in 0..=ws.largest_index() + 1 {
            let _ = ws.by_index(i);
        }
        for i in 0..8 {
            let _ = ws.by_uuid(task_uuid(i));
        }
        ws.iter().count()
    })?;
    let dm = guarded("Replica::dependency_map", || block_on(r.dependency_map(true)))?
        .map_err(|e| Failure::new("api-error", format!("{e}")))?;

    // --- per-task reads
    for (i, m) in maps.iter().enumerate() {
        let uuid = task_uuid(i);
        let task = guarded("Replica::get_task", || block_on(r.get_task(uuid)))?
            .map_err(|e| Failure::new("api-error", format!("{e}")))?
            .ok_or_else(|| Failure::new("task-missing", format!("task {i} vanished")))?;
        guarded("Replica::get_task_data", || block_on(r.get_task_data(uuid)))?.ok();
        guarded("Replica::get_task_operations", || block_on(r.get_task_operations(uuid)))?.ok();
        crate::ensure!(all.contains_key(&uuid), "task-missing", "task {i} not in all_tasks");

        // timestamps
        let getters: [(&str, Box<dyn Fn() -> Option<chrono::DateTime<Utc>> + '_>); 4] = [
            ("entry", Box::new(|| task.get_entry())),
            ("wait", Box::new(|| task.get_wait())),
            ("modified", Box::new(|| task.get_modified())),
            ("due", Box::new(|| task.get_due())),
        ];
        for (k, g) in getters.iter() {
            let got = guarded(&format!("Task::get_{k}"), || g())?;
            check_ts(k, m.get(*k), got, &mut rep, &mut nontrivial)?;
        }
        for k in TS_KEYS {
            let got = guarded("Task::get_timestamp", || task.get_timestamp(k))?;
            check_ts(k, m.get(k), got, &mut rep, &mut nontrivial)?;
        }
        let waiting = guarded("Task::is_waiting", || task.is_waiting())?;
        match m.get("wait").map(|v| expect_ts(v)) {
            Some(Expect::At(t)) if t > now + 60 => crate::ensure!(waiting, "is-waiting", "wait={t} is in the future but is_waiting() is false"),
            Some(Expect::At(t)) if t < now - 60 => crate::ensure!(!waiting, "is-waiting", "wait={t} is in the past but is_waiting() is true"),
            Some(Expect::Nothing) | None => crate::ensure!(!waiting, "is-waiting", "wait={:?} cannot be interpreted but is_waiting() is true", m.get("wait")),
            _ => {}
        }
        // simple accessors
        let status = guarded("Task::get_status", || task.get_status())?;
        let want_status = match m.get("status").map(|s| s.as_str()) {
            None | Some("pending") => Status::Pending,
            Some("completed") => Status::Completed,
            Some("deleted") => Status::Deleted,
            Some("recurring") => Status::Recurring,
            Some(o) => Status::Unknown(o.to_string()),
        };
        crate::ensure!(status == want_status, "status-read", "status {:?} read as {status:?}", m.get("status"));
        if matches!(want_status, Status::Unknown(_)) {
            rep.class("unknown-status");
        }
        guarded("Task simple getters", || {
            let _ = (
                task.get_uuid(),
                task.get_description().len(),
                task.get_priority().len(),
                task.is_active(),
                task.is_blocked(),
                task.is_blocking(),
                task.get_value("status").is_some(),
            );
            #[allow(deprecated)]
            let _ = task.get_taskmap().len();
        })?;
        crate::ensure!(
            task.is_active() == m.contains_key("start"),
            "is-active",
            "is_active() disagrees with the presence of 'start'"
        );
        // tags
        let tags: Vec<Tag> = guarded("Task::get_tags", || task.get_tags().collect())?;
        let user_tags: BTreeSet<String> = tags.iter().filter(|t| t.is_user()).map(|t| t.to_string()).collect();
        for (k, _) in m.iter() {
            if let Some(body) = k.strip_prefix("tag_") {
                match doc_valid_user_tag(body) {
                    Some(true) => {
                        crate::ensure!(user_tags.contains(body), "tag-missing", "valid tag key {k:?} is not listed by get_tags");
                        let tag: Tag = body.parse().map_err(|e| Failure::new("tag-parse", format!("documented-valid tag {body:?} rejected: {e}")))?;
                        let has = guarded("Task::has_tag", || task.has_tag(&tag))?;
                        crate::ensure!(has, "tag-missing", "has_tag({body:?}) is false although the key is stored");
                    }
                    Some(false) => {
                        crate::ensure!(!user_tags.contains(body), "invalid-tag-listed", "malformed tag key {k:?} is listed as a tag");
                        rep.class("malformed-tag-key");
                        nontrivial = true;
                    }
                    None => {}
                }
            }
        }
        for t in &user_tags {
            crate::ensure!(m.contains_key(&format!("tag_{t}")), "tag-invented", "get_tags lists {t:?} which is not stored");
        }
        // synthetic tags
        for (name, want) in [
            ("PENDING", Some(want_status == Status::Pending)),
            ("COMPLETED", Some(want_status == Status::Completed)),
            ("DELETED", Some(want_status == Status::Deleted)),
            ("ACTIVE", Some(m.contains_key("start"))),
        ] {
            let tag: Tag = name.parse().unwrap();
            let has = guarded("Task::has_tag(synthetic)", || task.has_tag(&tag))?;
            if let Some(wv) = want {
                crate::ensure!(has == wv, "synthetic-tag", "synthetic tag {name} is {has}, expected {wv}");
                // a stored key tag_<SYNTHETIC NAME> is don't-care (reserved names)
                crate::ensure!(
                    m.contains_key(&format!("tag_{name}"))
                        || tags.iter().any(|t| t.is_synthetic() && t.to_string() == name) == wv,
                    "synthetic-tag",
                    "get_tags and has_tag disagree about {name}"
                );
            }
        }
        for name in ["WAITING", "BLOCKED", "UNBLOCKED", "BLOCKING"] {
            let tag: Tag = name.parse().unwrap();
            guarded("Task::has_tag(synthetic)", || task.has_tag(&tag))?;
        }
        // annotations
        let anns = guarded("Task::get_annotations", || task.get_annotations().collect::<Vec<_>>())?;
        for (k, v) in m.iter() {
            if let Some(body) = k.strip_prefix("annotation_") {
                match expect_ts(body) {
                    Expect::At(t) => crate::ensure!(
                        anns.iter().any(|a| a.entry.timestamp() == t && &a.description == v),
                        "annotation-missing",
                        "annotation key {k:?} is not listed with its instant and text"
                    ),
                    Expect::Nothing => {
                        crate::ensure!(
                            !anns.iter().any(|a| &a.description == v && !m.iter().any(|(k2, v2)| k2 != k && v2 == v && k2.starts_with("annotation_"))),
                            "invalid-annotation-listed",
                            "malformed annotation key {k:?} is listed as an annotation"
                        );
                        rep.class("malformed-annotation-key");
                        nontrivial = true;
                    }
                    Expect::DontCare => {}
                }
            }
        }
        // dependencies
        let deps: BTreeSet<Uuid> = guarded("Task::get_dependencies", || task.get_dependencies().collect())?;
        for (k, _) in m.iter() {
            if let Some(body) = k.strip_prefix("dep_") {
                let canonical = Uuid::parse_str(body).ok().filter(|u| u.hyphenated().to_string() == body);
                match canonical {
                    Some(u) => crate::ensure!(deps.contains(&u), "dependency-missing", "dependency key {k:?} is not listed"),
                    None => {
                        if Uuid::parse_str(body).is_err() {
                            rep.class("malformed-dependency-key");
                            nontrivial = true;
                        }
                    }
                }
            }
        }
        for d in &deps {
            crate::ensure!(
                m.keys().any(|k| k.strip_prefix("dep_").and_then(|b| Uuid::parse_str(b).ok()) == Some(*d)),
                "dependency-invented",
                "get_dependencies lists {d} which is not stored"
            );
        }
        // UDAs
        guarded("Task UDA getters", || {
            #[allow(deprecated)]
            let a = task.get_udas().count();
            #[allow(deprecated)]
            let b = task.get_legacy_udas().count();
            let c2 = task.get_user_defined_attributes().count();
            for k in m.keys() {
                let _ = task.get_user_defined_attribute(k);
                #[allow(deprecated)]
                let _ = task.get_legacy_uda(k);
                #[allow(deprecated)]
                let _ = task.get_uda("ns", k);
            }
            (a, b, c2)
        })?;
        let udas: BTreeSet<String> = task.get_user_defined_attributes().map(|(k, _)| k.to_string()).collect();
        let known = |k: &str| {
            ["description", "due", "modified", "start", "status", "priority", "wait", "end", "entry"].contains(&k)
                || k.starts_with("tag_")
                || k.starts_with("annotation_")
                || k.starts_with("dep_")
        };
        let want_udas: BTreeSet<String> = m.keys().filter(|k| !known(k)).cloned().collect();
        crate::ensure!(udas == want_udas, "udas", "user-defined attributes read as {udas:?}, expected {want_udas:?}");
        // dependency map
        guarded("DependencyMap reads", || {
            (dm.dependencies(uuid).count(), dm.dependents(uuid).count())
        })?;
        // TaskData reads
        let td = task.clone().into_task_data();
        guarded("TaskData reads", || {
            let _ = (td.get_uuid(), td.properties().count(), td.iter().count());
            for k in m.keys() {
                let _ = (td.get(k), td.has(k));
            }
        })?;
    }
    // dependency map value oracle: edges a->b for working-set tasks a with dep_<b> where b is pending
    let status_of = |i: usize| maps.get(i).map(|m| m.get("status").map(|s| s.as_str()));
    for (i, m) in maps.iter().enumerate() {
        let a = task_uuid(i);
        let in_ws = matches!(status_of(i), Some(Some("pending")) | Some(Some("recurring")));
        let mut want: BTreeSet<Uuid> = BTreeSet::new();
        if in_ws {
            for k in m.keys() {
                if let Some(b) = k.strip_prefix("dep_").and_then(|b| Uuid::parse_str(b).ok()) {
                    let bi = (0..maps.len()).find(|j| task_uuid(*j) == b);
                    if let Some(bi) = bi {
                        if status_of(bi) == Some(Some("pending")) {
                            want.insert(b);
                        }
                    }
                }
            }
        }
        let got: BTreeSet<Uuid> = dm.dependencies(a).collect();
        crate::ensure!(
            got == want,
            "dependency-map",
            "dependency_map lists dependencies {got:?} for task {i}, expected {want:?} (working-set task with dep_ keys whose targets have status pending)"
        );
        if !want.is_empty() {
            rep.class("dependency-edge");
        }
    }
    // --- second phase: the tasks change, the working set is not rebuilt
    if !c.after.is_empty() {
        let mut ops = Operations::new();
        for (ti, kind) in &c.after {
            let uuid = task_uuid(*ti as usize % c.tasks.len());
            let Some(mut td) = guarded("Replica::get_task_data", || block_on(r.get_task_data(uuid)))?
                .map_err(|e| Failure::new("api-error", format!("{e}")))?
            else {
                continue;
            };
            match kind {
                0 => td.update("status", None, &mut ops),
                1 => {
                    let keys: Vec<String> = td.properties().cloned().collect();
                    for k in keys {
                        td.update(k, None, &mut ops);
                    }
                }
                2 => td.delete(&mut ops),
                3 => td.update("status", Some("no-such-status".into()), &mut ops),
                _ => td.update("status", Some("pending".into()), &mut ops),
            }
        }
        block_on(r.commit_operations(ops)).map_err(|e| Failure::new("commit-error", format!("second commit failed: {e}")))?;
        guarded("Replica::all_tasks (stale working set)", || block_on(r.all_tasks()))?.ok();
        guarded("Replica::pending_tasks (stale working set)", || block_on(r.pending_tasks()))?.ok();
        guarded("Replica::pending_task_data (stale working set)", || block_on(r.pending_task_data()))?.ok();
        let ws2 = guarded("Replica::working_set (stale working set)", || block_on(r.working_set()))?
            .map_err(|e| Failure::new("api-error", format!("{e}")))?;
        guarded("WorkingSet reads (stale working set)", || {
            for i in 0..=ws2.largest_index() + 1 {
                let _ = ws2.by_index(i);
            }
            ws2.iter().count()
        })?;
        for force in [false, true] {
            let dm2 = guarded("Replica::dependency_map (stale working set)", || block_on(r.dependency_map(force)))?
                .map_err(|e| Failure::new("api-error", format!("{e}")))?;
            for i in 0..c.tasks.len() {
                guarded("DependencyMap reads (stale working set)", || {
                    (dm2.dependencies(task_uuid(i)).count(), dm2.dependents(task_uuid(i)).count())
                })?;
            }
        }
        for i in 0..c.tasks.len() {
            let uuid = task_uuid(i);
            if let Some(t) = guarded("Replica::get_task (stale working set)", || block_on(r.get_task(uuid)))?
                .map_err(|e| Failure::new("api-error", format!("{e}")))?
            {
                guarded("Task reads (stale working set)", || {
                    (t.get_status(), t.is_waiting(), t.is_active(), t.is_blocked(), t.is_blocking(), t.get_tags().count(), t.get_dependencies().count())
                })?;
            }
        }
        guarded("Replica::rebuild_working_set (after the change)", || block_on(r.rebuild_working_set(false)))?.ok();
        rep.class("working-set-stale-after-a-later-change");
    }
    rep.nontrivial = nontrivial;
    Ok(rep)
}

fn check_ts(
    key: &str,
    stored: Option<&String>,
    got: Option<chrono::DateTime<Utc>>,
    rep: &mut CaseReport,
    nontrivial: &mut bool,
) -> Result<(), Failure> {
    match stored.map(|v| expect_ts(v)) {
        None => crate::ensure!(got.is_none(), "timestamp-read", "{key} is not stored but reads as {got:?}"),
        Some(Expect::At(t)) => crate::ensure!(
            got.map(|d| d.timestamp()) == Some(t),
            "timestamp-read",
            "{key}={t} reads as {got:?}"
        ),
        Some(Expect::Nothing) => {
            crate::ensure!(
                got.is_none(),
                "timestamp-read",
                "{key}={:?} cannot be interpreted as a timestamp but reads as {got:?}",
                stored
            );
            *nontrivial = true;
            let v = stored.unwrap();
            if plain_decimal(v).is_some() {
                rep.class("integer-outside-calendar-range");
            } else {
                rep.class("non-integer-timestamp");
            }
        }
        Some(Expect::DontCare) => rep.class("odd-integer-syntax-or-near-limit (no-panic only)"),
    }
    Ok(())
}

pub fn run(e: &Engine) {
    e.assume("integer syntax tasks.md does not describe (+5, 007, -0) and values within a factor of the calendar library's own limits are checked for no-panic only");
    e.assume("all-uppercase tag names are reserved for synthetic tags; whether a stored key tag_PENDING is listed is not asserted");
    e.campaign(
        "hostile-task-maps",
        "1-4 tasks with 0-9 generated key/value pairs each over the recognised keys and prefixes (timestamp keys, status, tag_, annotation_, dep_, UDAs) with hostile values (i64 extremes, beyond-calendar integers, beyond-i64 digit strings, odd integer syntax, empty, non-ASCII, separators, malformed tag/annotation/dependency keys, unknown statuses); stored through TaskData::update on in-memory or SQLite, reloaded, EVERY read method of Task, TaskData, WorkingSet, DependencyMap and Replica called under panic capture, with value oracles; non-trivial = the task set contains an uninterpretable timestamp, or a malformed tag / annotation / dependency key",
        e.tier.pick(150_000, 4_000_000),
        || strategy(1),
        |c| serde_json::to_value(c).unwrap(),
        check_case,
    );
    e.fuzz_corpus("c18_read");
    e.fuzz_campaign("c18_read", 500000);
}
