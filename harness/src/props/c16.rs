//! C16 — SQLite and in-memory storage are observationally equivalent, and SQLite is persistent
//! (reopen, schema upgrade, read-only).

use crate::engine::exec::block_on;
use crate::engine::model::{task_uuid, ts_ns};
use crate::engine::obs::{dump_txn, Dump};
use crate::engine::{CaseReport, CheckResult, Engine, Failure};
use proptest::prelude::*;
use serde::{Deserialize, Serialize};
use std::collections::BTreeMap;
use std::path::Path;
use taskchampion::storage::inmemory::InMemoryStorage;
use taskchampion::storage::{AccessMode, Storage, StorageTxn, TaskMap};
use taskchampion::{Operation, SqliteStorage, Uuid};

#[derive(Clone, Debug, PartialEq, Eq, Hash, Serialize, Deserialize)]
pub enum GOp {
    Create(u8),
    Delete(u8, Vec<(String, String)>),
    Update(u8, String, Option<String>, Option<String>, u32),
    Undo,
}

#[derive(Clone, Debug, PartialEq, Eq, Hash, Serialize, Deserialize)]
pub enum Call {
    GetTask(u8),
    GetPending,
    CreateTask(u8),
    SetTask(u8, Vec<(String, String)>),
    DeleteTask(u8),
    AllTasks,
    AllUuids,
    BaseVersion,
    SetBaseVersion(u8),
    GetTaskOps(u8),
    Unsynced,
    NumUnsynced,
    AddOp(GOp),
    /// remove the most recent unsynced operation (true) or try with an operation that is not it
    RemoveOp(bool),
    SyncComplete,
    GetWs,
    AddToWs(u8),
    /// index as a fraction of the current range, new content
    SetWsItem(u16, Option<u8>),
    ClearWs,
    IsEmpty,
}

#[derive(Clone, Debug, PartialEq, Eq, Hash, Serialize, Deserialize)]
pub enum Step {
    Txn { calls: Vec<Call>, commit: bool },
    Reopen,
    ReadOnlyProbe,
}

#[derive(Clone, Debug, PartialEq, Eq, Hash, Serialize, Deserialize)]
pub struct Case {
    pub steps: Vec<Step>,
}

const NT: u8 = 4;

fn text() -> BoxedStrategy<String> {
    prop_oneof![
        3 => "[a-z]{0,6}",
        2 => "\\PC{0,8}",
        1 => any::<String>().prop_map(|s| s.chars().take(6).collect()),
        1 => Just("1e5".to_string()),
        1 => Just("12345".to_string()),
        1 => Just("it's \"quoted\" \\ \u{0} \n".to_string()),
    ]
    .boxed()
}

fn kv() -> BoxedStrategy<Vec<(String, String)>> {
    proptest::collection::vec((text(), text()), 0..4).boxed()
}

fn gop() -> BoxedStrategy<GOp> {
    prop_oneof![
        2 => (0..NT).prop_map(GOp::Create),
        2 => (0..NT, kv()).prop_map(|(t, m)| GOp::Delete(t, m)),
        5 => (0..NT, text(), proptest::option::of(text()), proptest::option::of(text()), 0u32..1_000_000_000)
            .prop_map(|(t, p, o, v, ns)| GOp::Update(t, p, o, v, ns)),
        1 => Just(GOp::Undo),
    ]
    .boxed()
}

fn call() -> BoxedStrategy<Call> {
    prop_oneof![
        3 => (0..NT).prop_map(Call::GetTask),
        2 => Just(Call::GetPending),
        4 => (0..NT).prop_map(Call::CreateTask),
        5 => (0..NT, kv()).prop_map(|(t, m)| Call::SetTask(t, m)),
        3 => (0..NT).prop_map(Call::DeleteTask),
        2 => Just(Call::AllTasks),
        1 => Just(Call::AllUuids),
        1 => Just(Call::BaseVersion),
        2 => (0u8..4).prop_map(Call::SetBaseVersion),
        3 => (0..NT).prop_map(Call::GetTaskOps),
        2 => Just(Call::Unsynced),
        1 => Just(Call::NumUnsynced),
        8 => gop().prop_map(Call::AddOp),
        3 => any::<bool>().prop_map(Call::RemoveOp),
        2 => Just(Call::SyncComplete),
        3 => Just(Call::GetWs),
        5 => (0..NT).prop_map(Call::AddToWs),
        4 => (any::<u16>(), proptest::option::of(0..NT)).prop_map(|(i, u)| Call::SetWsItem(i, u)),
        1 => Just(Call::ClearWs),
        1 => Just(Call::IsEmpty),
    ]
    .boxed()
}

pub fn strategy() -> BoxedStrategy<Case> {
    strategy_sized(10)
}

pub fn strategy_sized(max_steps: usize) -> BoxedStrategy<Case> {
    proptest::collection::vec(
        prop_oneof![
            10 => (proptest::collection::vec(call(), 1..10), prop_oneof![3 => Just(true), 1 => Just(false)])
                .prop_map(|(calls, commit)| Step::Txn { calls, commit }),
            2 => Just(Step::Reopen),
            1 => Just(Step::ReadOnlyProbe),
        ],
        1..max_steps,
    )
    .prop_map(|steps| Case { steps })
    .boxed()
}

pub fn to_operation(g: &GOp) -> Operation {
    match g {
        GOp::Create(t) => Operation::Create { uuid: task_uuid(*t as usize) },
        GOp::Delete(t, m) => Operation::Delete {
            uuid: task_uuid(*t as usize),
            old_task: m.iter().cloned().collect(),
        },
        GOp::Update(t, p, o, v, ns) => Operation::Update {
            uuid: task_uuid(*t as usize),
            property: p.clone(),
            old_value: o.clone(),
            value: v.clone(),
            timestamp: ts_ns(0, *ns),
        },
        GOp::Undo => Operation::UndoPoint,
    }
}

fn sorted_tasks(mut v: Vec<(Uuid, TaskMap)>) -> Vec<(Uuid, BTreeMap<String, String>)> {
    let mut out: Vec<(Uuid, BTreeMap<String, String>)> =
        v.drain(..).map(|(u, m)| (u, m.into_iter().collect())).collect();
    out.sort();
    out
}

type R<T> = Result<T, taskchampion::Error>;

fn same<T: PartialEq + std::fmt::Debug>(what: &str, a: R<T>, b: R<T>) -> Result<(), Failure> {
    match (a, b) {
        (Ok(a), Ok(b)) => {
            crate::ensure!(
                a == b,
                format!("lockstep-value:{}", what.split('(').next().unwrap_or(what)),
                "{what}: in-memory returned {a:?}, SQLite returned {b:?}"
            );
            Ok(())
        }
        (Err(_), Err(_)) => Ok(()),
        (a, b) => Err(Failure::new(
            format!("lockstep-error:{}", what.split('(').next().unwrap_or(what)),
            format!(
                "{what}: in-memory {} but SQLite {}",
                if a.is_ok() { "succeeded" } else { "failed" },
                match &b {
                    Ok(_) => "succeeded".to_string(),
                    Err(e) => format!("failed ({e})"),
                }
            ),
        )),
    }
}

async fn run_call(
    c: &Call,
    m: &mut dyn StorageTxn,
    s: &mut dyn StorageTxn,
    touched: &mut std::collections::BTreeSet<&'static str>,
) -> Result<(), Failure> {
    let what = format!("{c:?}");
    match c {
        Call::GetTask(t) => {
            let u = task_uuid(*t as usize);
            same(&what, m.get_task(u).await, s.get_task(u).await)
        }
        Call::GetPending => same(
            &what,
            m.get_pending_tasks().await.map(sorted_tasks),
            s.get_pending_tasks().await.map(sorted_tasks),
        ),
        Call::CreateTask(t) => {
            touched.insert("tasks");
            let u = task_uuid(*t as usize);
            same(&what, m.create_task(u).await, s.create_task(u).await)
        }
        Call::SetTask(t, kv) => {
            touched.insert("tasks");
            let u = task_uuid(*t as usize);
            let tm: TaskMap = kv.iter().cloned().collect();
            same(&what, m.set_task(u, tm.clone()).await, s.set_task(u, tm).await)
        }
        Call::DeleteTask(t) => {
            touched.insert("tasks");
            let u = task_uuid(*t as usize);
            same(&what, m.delete_task(u).await, s.delete_task(u).await)
        }
        Call::AllTasks => same(
            &what,
            m.all_tasks().await.map(sorted_tasks),
            s.all_tasks().await.map(sorted_tasks),
        ),
        Call::AllUuids => same(
            &what,
            m.all_task_uuids().await.map(|mut v| {
                v.sort();
                v
            }),
            s.all_task_uuids().await.map(|mut v| {
                v.sort();
                v
            }),
        ),
        Call::BaseVersion => same(&what, m.base_version().await, s.base_version().await),
        Call::SetBaseVersion(v) => {
            touched.insert("base-version");
            let u = Uuid::from_u128(*v as u128);
            same(&what, m.set_base_version(u).await, s.set_base_version(u).await)
        }
        Call::GetTaskOps(t) => {
            let u = task_uuid(*t as usize);
            same(&what, m.get_task_operations(u).await, s.get_task_operations(u).await)
        }
        Call::Unsynced => same(&what, m.unsynced_operations().await, s.unsynced_operations().await),
        Call::NumUnsynced => same(
            &what,
            m.num_unsynced_operations().await,
            s.num_unsynced_operations().await,
        ),
        Call::AddOp(g) => {
            touched.insert("operations");
            let op = to_operation(g);
            same(&what, m.add_operation(op.clone()).await, s.add_operation(op).await)
        }
        Call::RemoveOp(last) => {
            touched.insert("operations");
            let ops = m.unsynced_operations().await.unwrap_or_default();
            let op = if *last {
                match ops.last() {
                    Some(o) => o.clone(),
                    None => Operation::UndoPoint,
                }
            } else {
                Operation::Create { uuid: Uuid::from_u128(0x7e57) }
            };
            same(&what, m.remove_operation(op.clone()).await, s.remove_operation(op).await)
        }
        Call::SyncComplete => {
            touched.insert("sync-complete");
            same(&what, m.sync_complete().await, s.sync_complete().await)
        }
        Call::GetWs => same(&what, m.get_working_set().await, s.get_working_set().await),
        Call::AddToWs(t) => {
            touched.insert("working-set");
            let u = task_uuid(*t as usize);
            same(&what, m.add_to_working_set(u).await, s.add_to_working_set(u).await)
        }
        Call::SetWsItem(frac, u) => {
            touched.insert("working-set");
            // in-contract: only within the current range (the call cannot add an item)
            let len = m.get_working_set().await.map(|w| w.len()).unwrap_or(1);
            if len <= 1 {
                return Ok(());
            }
            let idx = 1 + ((*frac as usize * (len - 1)) >> 16);
            let u = u.map(|t| task_uuid(t as usize));
            same(
                &format!("SetWsItem(index {idx} of {len}, {u:?})"),
                m.set_working_set_item(idx, u).await,
                s.set_working_set_item(idx, u).await,
            )
        }
        Call::ClearWs => {
            touched.insert("working-set");
            same(&what, m.clear_working_set().await, s.clear_working_set().await)
        }
        Call::IsEmpty => same(&what, m.is_empty().await, s.is_empty().await),
    }
}

fn pool() -> Vec<Uuid> {
    (0..NT as usize).map(task_uuid).collect()
}

async fn full_dump(st: &mut dyn Storage) -> Result<Dump, Failure> {
    let mut t = st
        .txn()
        .await
        .map_err(|e| Failure::new("txn-error", format!("cannot begin a transaction: {e}")))?;
    dump_txn(t.as_mut(), &pool())
        .await
        .map_err(|e| Failure::new("dump-error", format!("cannot read the storage: {e}")))
}

async fn open_rw(dir: &Path) -> Result<SqliteStorage, Failure> {
    SqliteStorage::new(dir, AccessMode::ReadWrite, true)
        .await
        .map_err(|e| Failure::new("sqlite-open", format!("cannot open the database: {e}")))
}

fn dumps_equal(a: &Dump, b: &Dump) -> bool {
    a.normalized() == b.normalized()
}

pub fn check_case(c: &Case) -> CheckResult {
    let dir = tempfile::TempDir::new().map_err(|e| Failure::new("infra", format!("{e}")))?;
    let mut rep = CaseReport::default();
    block_on(async {
        let mut mem = InMemoryStorage::new();
        let mut sql = Some(open_rw(dir.path()).await?);
        let (mut commits, mut abandons, mut reopens) = (0, 0, 0);
        let mut touched = std::collections::BTreeSet::new();
        for (si, step) in c.steps.iter().enumerate() {
            match step {
                Step::Txn { calls, commit } => {
                    let mut mt = mem.txn().await.map_err(|e| Failure::new("txn-error", format!("{e}")))?;
                    let mut stx = sql
                        .as_mut()
                        .unwrap()
                        .txn()
                        .await
                        .map_err(|e| Failure::new("txn-error", format!("sqlite txn: {e}")))?;
                    for call in calls {
                        run_call(call, mt.as_mut(), stx.as_mut(), &mut touched)
                            .await
                            .map_err(|mut f| {
                                f.msg = format!("step {si}: {}", f.msg);
                                f
                            })?;
                    }
                    if *commit {
                        same("commit", mt.commit().await, stx.commit().await)?;
                        commits += 1;
                    } else {
                        abandons += 1;
                    }
                    drop(mt);
                    drop(stx);
                    // what is visible afterwards
                    let dm = full_dump(&mut mem).await?;
                    let ds = full_dump(sql.as_mut().unwrap()).await?;
                    crate::ensure!(
                        dumps_equal(&dm, &ds),
                        if *commit { "visible-after-commit" } else { "visible-after-abandon" },
                        "step {si}: after {} the two storages differ:\n in-memory {dm:?}\n SQLite    {ds:?}",
                        if *commit { "commit" } else { "abandoning the transaction" }
                    );
                }
                Step::Reopen => {
                    sql = None; // joins the storage thread, closes the connection
                    sql = Some(open_rw(dir.path()).await?);
                    let dm = full_dump(&mut mem).await?;
                    let ds = full_dump(sql.as_mut().unwrap()).await?;
                    crate::ensure!(
                        dumps_equal(&dm, &ds),
                        "reopen-differs",
                        "step {si}: after closing and reopening, SQLite holds {ds:?}, expected {dm:?}"
                    );
                    reopens += 1;
                }
                Step::ReadOnlyProbe => {
                    sql = None;
                    let before = {
                        let mut s = open_rw(dir.path()).await?;
                        full_dump(&mut s).await?
                    };
                    {
                        let mut ro = SqliteStorage::new(dir.path(), AccessMode::ReadOnly, false)
                            .await
                            .map_err(|e| Failure::new("readonly-open", format!("cannot open read-only: {e}")))?;
                        let d = full_dump(&mut ro).await?;
                        crate::ensure!(dumps_equal(&d, &before), "readonly-reads", "step {si}: a read-only handle reads {d:?}, expected {before:?}");
                        let mut t = ro.txn().await.map_err(|e| Failure::new("txn-error", format!("read-only txn: {e}")))?;
                        let u = task_uuid(0);
                        let op = Operation::Create { uuid: u };
                        let last = before.unsynced.last().cloned().unwrap_or(Operation::UndoPoint);
                        let results: Vec<(&str, bool)> = vec![
                            ("create_task", t.create_task(Uuid::from_u128(0x77)).await.is_err()),
                            ("set_task", t.set_task(u, TaskMap::new()).await.is_err()),
                            ("delete_task", t.delete_task(u).await.is_err()),
                            ("set_base_version", t.set_base_version(Uuid::from_u128(9)).await.is_err()),
                            ("add_operation", t.add_operation(op).await.is_err()),
                            ("remove_operation", t.remove_operation(last).await.is_err()),
                            ("sync_complete", t.sync_complete().await.is_err()),
                            ("add_to_working_set", t.add_to_working_set(u).await.is_err()),
                            ("set_working_set_item", t.set_working_set_item(1, None).await.is_err()),
                            ("clear_working_set", t.clear_working_set().await.is_err()),
                            ("commit", t.commit().await.is_err()),
                        ];
                        for (name, refused) in results {
                            crate::ensure!(refused, format!("readonly-accepted:{name}"), "step {si}: {name} succeeded on a storage opened read-only");
                        }
                    }
                    let mut s = open_rw(dir.path()).await?;
                    let after = full_dump(&mut s).await?;
                    crate::ensure!(dumps_equal(&after, &before), "readonly-modified", "step {si}: the database changed while opened read-only");
                    sql = Some(s);
                    rep.class("read-only-probe");
                }
            }
        }
        rep.nontrivial = commits >= 1 && abandons >= 1 && reopens >= 1 && touched.len() >= 3;
        rep.class_if(commits >= 1 && abandons >= 1, "commit-and-abandon");
        rep.class_if(reopens >= 1, "reopen");
        Ok::<(), Failure>(())
    })?;
    Ok(rep)
}

// ---------------------------------------------------------------------------------------------
// databases written under older schema versions

#[derive(Clone, Debug, PartialEq, Eq, Hash, Serialize, Deserialize)]
pub struct LegacyCase {
    /// 0 = 0.8, 1 = 0.9, 2 = (0,1), 3 = (0,2)
    pub schema: u8,
    pub tasks: Vec<(u8, Vec<(String, String)>)>,
    pub ops: Vec<(GOp, bool)>, // operation, synced (ignored for 0.8 which has no such column)
    pub ws: Vec<Option<u8>>,
    pub base: Option<u8>,
    pub then: Vec<Call>,
}

pub fn legacy_strategy() -> BoxedStrategy<LegacyCase> {
    (
        0u8..4,
        proptest::collection::vec((0..NT, kv()), 0..4),
        proptest::collection::vec((gop(), any::<bool>()), 0..10),
        proptest::collection::vec(proptest::option::of(0..NT), 0..5),
        proptest::option::of(1u8..4),
        proptest::collection::vec(call(), 0..6),
    )
        .prop_map(|(schema, tasks, ops, ws, base, then)| LegacyCase {
            schema,
            tasks,
            ops,
            ws,
            base,
            then,
        })
        .boxed()
}

fn write_legacy(dir: &Path, c: &LegacyCase) -> Result<Dump, Failure> {
    let e = |e: rusqlite::Error| Failure::new("infra", format!("writing the legacy database: {e}"));
    let con = rusqlite::Connection::open(dir.join("taskchampion.sqlite3")).map_err(e)?;
    con.query_row("PRAGMA journal_mode=WAL", [], |_| Ok(())).map_err(e)?;
    for q in [
        "CREATE TABLE operations (id INTEGER PRIMARY KEY AUTOINCREMENT, data STRING);",
        "CREATE TABLE sync_meta (key STRING PRIMARY KEY, value STRING);",
        "CREATE TABLE tasks (uuid STRING PRIMARY KEY, data STRING);",
        "CREATE TABLE working_set (id INTEGER PRIMARY KEY, uuid STRING);",
    ] {
        con.execute(q, []).map_err(e)?;
    }
    if c.schema >= 1 {
        // the 0.9 / (0,1) layout, with the double-quoted JSON paths those versions used
        let col = if c.schema <= 2 {
            r#"ALTER TABLE operations ADD COLUMN uuid GENERATED ALWAYS AS (
                coalesce(json_extract(data, "$.Update.uuid"),
                         json_extract(data, "$.Create.uuid"),
                         json_extract(data, "$.Delete.uuid"))) VIRTUAL"#
        } else {
            r#"ALTER TABLE operations ADD COLUMN uuid GENERATED ALWAYS AS (
                coalesce(json_extract(data, '$.Update.uuid'),
                         json_extract(data, '$.Create.uuid'),
                         json_extract(data, '$.Delete.uuid'))) VIRTUAL"#
        };
        con.execute(col, []).map_err(e)?;
        con.execute("CREATE INDEX operations_by_uuid ON operations (uuid)", []).map_err(e)?;
        con.execute("ALTER TABLE operations ADD COLUMN synced bool DEFAULT false", []).map_err(e)?;
        con.execute("CREATE INDEX operations_by_synced ON operations (synced)", []).map_err(e)?;
    }
    if c.schema >= 2 {
        con.execute(
            "CREATE TABLE version (singleton INTEGER PRIMARY KEY CHECK (singleton = 0), major INTEGER, minor INTEGER)",
            [],
        )
        .map_err(e)?;
        con.execute(
            "INSERT INTO version (singleton, major, minor) VALUES (0, 0, ?)",
            [if c.schema == 2 { 1 } else { 2 }],
        )
        .map_err(e)?;
    }
    let mut expect = Dump::empty();
    for (t, kvs) in &c.tasks {
        let u = task_uuid(*t as usize);
        let m: BTreeMap<String, String> = kvs.iter().cloned().collect();
        con.execute(
            "INSERT OR REPLACE INTO tasks (uuid, data) VALUES (?, ?)",
            rusqlite::params![u.to_string(), serde_json::to_string(&m).unwrap()],
        )
        .map_err(e)?;
        expect.tasks.0.insert(u, m);
    }
    for (g, synced) in &c.ops {
        let op = to_operation(g);
        let data = serde_json::to_string(&op).unwrap();
        if c.schema >= 1 {
            con.execute(
                "INSERT INTO operations (data, synced) VALUES (?, ?)",
                rusqlite::params![data, synced],
            )
            .map_err(e)?;
        } else {
            con.execute("INSERT INTO operations (data) VALUES (?)", rusqlite::params![data]).map_err(e)?;
        }
        let is_synced = c.schema >= 1 && *synced;
        if !is_synced {
            expect.unsynced.push(op.clone());
        }
        if let Some(u) = op.get_uuid() {
            expect.task_ops.entry(u).or_default().push(op);
        }
    }
    for (i, w) in c.ws.iter().enumerate() {
        if let Some(t) = w {
            con.execute(
                "INSERT INTO working_set (id, uuid) VALUES (?, ?)",
                rusqlite::params![i + 1, task_uuid(*t as usize).to_string()],
            )
            .map_err(e)?;
        }
    }
    expect.working_set = std::iter::once(None)
        .chain(c.ws.iter().map(|w| w.map(|t| task_uuid(t as usize))))
        .collect();
    if let Some(b) = c.base {
        let u = Uuid::from_u128(b as u128);
        con.execute(
            "INSERT INTO sync_meta (key, value) VALUES ('base_version', ?)",
            rusqlite::params![u.to_string()],
        )
        .map_err(e)?;
        expect.base = u;
    }
    drop(con);
    Ok(expect)
}

pub fn check_legacy(c: &LegacyCase) -> CheckResult {
    let dir = tempfile::TempDir::new().map_err(|e| Failure::new("infra", format!("{e}")))?;
    let mut rep = CaseReport::default();
    let expect = write_legacy(dir.path(), c)?;
    block_on(async {
        let mut sql = open_rw(dir.path()).await.map_err(|mut f| {
            f.signature = format!("legacy-open:{}", c.schema);
            f
        })?;
        let d = full_dump(&mut sql).await?;
        crate::ensure!(
            dumps_equal(&d, &expect),
            format!("legacy-contents:{}", c.schema),
            "a database written with schema {} reads back after the upgrade as\n  {d:?}\nexpected\n  {expect:?}",
            ["0.8", "0.9", "(0,1)", "(0,2)"][c.schema as usize]
        );
        // and behaves like an in-memory storage holding the same contents from there on
        let mut mem = InMemoryStorage::new();
        {
            let mut t = mem.txn().await.unwrap();
            for (u, m) in &expect.tasks.0 {
                t.set_task(*u, m.iter().map(|(k, v)| (k.clone(), v.clone())).collect()).await.unwrap();
            }
            // operations: synced ones first is not how they are stored, so replay in order with
            // a sync_complete-free approach: add all, then compare only through calls that do
            // not depend on the synced flag of old operations
            for (g, synced) in &c.ops {
                if !(c.schema >= 1 && *synced) {
                    t.add_operation(to_operation(g)).await.unwrap();
                }
            }
            for w in &expect.working_set[1..] {
                match w {
                    Some(u) => {
                        t.add_to_working_set(*u).await.unwrap();
                    }
                    None => {
                        t.add_to_working_set(Uuid::nil()).await.unwrap();
                    }
                }
            }
            for (i, w) in expect.working_set.iter().enumerate().skip(1) {
                if w.is_none() {
                    t.set_working_set_item(i, None).await.unwrap();
                }
            }
            t.set_base_version(expect.base).await.unwrap();
            t.commit().await.unwrap();
        }
        let any_synced = c.schema >= 1 && c.ops.iter().any(|(_, s)| *s);
        let mut touched = std::collections::BTreeSet::new();
        let mut mt = mem.txn().await.unwrap();
        let mut stx = sql.txn().await.map_err(|e| Failure::new("txn-error", format!("{e}")))?;
        for call in &c.then {
            // per-task history and sync_complete see old synced operations, which the
            // in-memory twin does not hold
            if any_synced && matches!(call, Call::GetTaskOps(_) | Call::SyncComplete) {
                continue;
            }
            // trailing empty working-set slots are represented differently by the twin
            if matches!(call, Call::GetWs | Call::SetWsItem(..) | Call::AddToWs(_) | Call::IsEmpty)
                && expect.working_set.last() == Some(&None)
                && expect.working_set.len() > 1
            {
                continue;
            }
            run_call(call, mt.as_mut(), stx.as_mut(), &mut touched).await?;
        }
        rep.class(["schema-0.8", "schema-0.9", "schema-(0,1)", "schema-(0,2)"][c.schema as usize]);
        rep.nontrivial = !c.ops.is_empty() && !c.tasks.is_empty();
        Ok::<(), Failure>(())
    })?;
    Ok(rep)
}

pub fn run(e: &Engine) {
    e.assume("only in-contract StorageTxn calls: set_working_set_item within the current range, one commit per transaction");
    e.assume("collections compared as multisets, errors by is_ok(); a trailing empty working-set slot is not significant");
    e.campaign(
        "lockstep",
        "1-9 steps: a transaction of 1-9 generated StorageTxn calls (whole surface, arbitrary Unicode contents) run in lock-step on InMemoryStorage and SqliteStorage and committed or abandoned, close/reopen, or a read-only probe; every return value compared, full dump compared after every transaction and reopen; non-trivial = >=1 commit, >=1 abandon, >=1 reopen and >=3 of {tasks, operations, base version, working set, sync_complete} touched",
        e.tier.pick(6000, 100_000),
        || strategy_sized(e.tier.pick(10, 30)),
        |c| serde_json::to_value(c).unwrap(),
        check_case,
    );
    e.campaign(
        "legacy-schemas",
        "a database file written by the harness in the layout of 0.8, 0.9, (0,1) or (0,2) with generated tasks, operations (synced or not), working set and base version; after opening (upgrade) the full dump incl. per-task operation lookup must equal what was written, and further calls agree with an in-memory twin; non-trivial = tasks and operations present",
        e.tier.pick(2500, 100_000),
        legacy_strategy,
        |c| serde_json::to_value(c).unwrap(),
        check_legacy,
    );
    e.fuzz_corpus("c16_lockstep");
    e.fuzz_campaign("c16_lockstep", 60000);
}
