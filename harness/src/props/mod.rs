pub mod common;
pub mod c01;
pub mod c02;
pub mod c03;
pub mod c04;
pub mod c05;
pub mod c06;
pub mod c07;
pub mod c08;
pub mod c09;
pub mod c10;
pub mod c11;
pub mod c12;
pub mod c13;
pub mod c14;
pub mod c15;
pub mod c16;
pub mod c17;
pub mod c18;
pub mod c19;
pub mod c20;

use crate::engine::Engine;

pub fn lookup(id: &str) -> Option<(&'static str, fn(&Engine))> {
    Some(match id {
        "C01" => ("C01", c01::run),
        "C02" => ("C02", c02::run),
        "C03" => ("C03", c03::run),
        "C04" => ("C04", c04::run_prop),
        "C05" => ("C05", c05::run),
        "C06" => ("C06", c06::run),
        "C07" => ("C07", c07::run),
        "C08" => ("C08", c08::run),
        "C09" => ("C09", c09::run),
        "C10" => ("C10", c10::run),
        "C11" => ("C11", c11::run),
        "C12" => ("C12", c12::run),
        "C13" => ("C13", c13::run),
        "C14" => ("C14", c14::run),
        "C15" => ("C15", c15::run),
        "C16" => ("C16", c16::run),
        "C17" => ("C17", c17::run),
        "C18" => ("C18", c18::run),
        "C19" => ("C19", c19::run),
        "C20" => ("C20", c20::run),
        _ => return None,
    })
}

/// Child-process entry points.
pub fn child_mode(args: &[String]) -> Option<i32> {
    match args.get(1).map(|s| s.as_str()) {
        Some("--c06-child") if args.len() >= 4 => Some(c06::child_main(&args[2], &args[3])),
        Some("--c17-child") if args.len() >= 5 => Some(c17::child_main(&args[2], &args[3], &args[4])),
        _ => None,
    }
}
