//! C08 — every server backend implements the version-chain protocol exactly.

use super::common::{pool, Action, Intent, Realizer};
use crate::engine::exec::block_on;
use crate::engine::httpsrv::{Blocking, HttpServer};
use crate::engine::model::{parse_version, Model};
use crate::engine::rep::Rep;
use crate::engine::{CaseReport, CheckResult, Engine, Failure};
use proptest::prelude::*;
use serde::{Deserialize, Serialize};
use std::path::PathBuf;
use std::process::Command;
use taskchampion::server::verif::{cloud_server, set_draws, Cryptor, ObjectStore};
use taskchampion::server::{AddVersionResult, GetVersionResult, Server};
use taskchampion::{ServerConfig, Uuid};

#[derive(Clone, Copy, Debug, PartialEq, Eq, Hash, Serialize, Deserialize)]
pub enum Backend {
    Local1,
    Local2,
    GitLocal,
    GitRemote,
    ObjectStore,
    Http,
}

#[derive(Clone, Debug, PartialEq, Eq, Hash, Serialize, Deserialize)]
pub enum ParentSel {
    Latest,
    Nil,
    Older(u16),
    Unknown(u8),
}

#[derive(Clone, Debug, PartialEq, Eq, Hash, Serialize, Deserialize)]
pub enum Payload {
    Empty,
    Bytes(Vec<u8>),
    Large(u32, u8), // kB, fill
}

#[derive(Clone, Debug, PartialEq, Eq, Hash, Serialize, Deserialize)]
pub enum SOp {
    AddVersion { h: u8, parent: ParentSel, payload: Payload },
    GetChild { h: u8, parent: ParentSel },
    AddSnapshot { h: u8, version: u16, payload: Payload },
    GetSnapshot { h: u8 },
    /// handle h learns the latest version, another handle adds a version on top of it, h makes
    /// a request that does not involve the chain head (via: 0 nothing, 1 get-snapshot,
    /// 2 add-snapshot for the version it knows, 3 get-child-version of a never-seen id, 4 of the
    /// root), then h adds a version whose parent is the latest version it knew: must be rejected
    StaleProbe { h: u8, via: u8 },
}

#[derive(Clone, Debug, PartialEq, Eq, Hash, Serialize, Deserialize)]
pub struct Case {
    pub backend: Backend,
    pub handles: u8,
    pub ops: Vec<SOp>,
    /// git only: every commit is dated 200 days back (GIT_COMMITTER_DATE), so that the cleanup
    /// after add_snapshot may remove the version files the snapshot covers
    #[serde(default)]
    pub aged: bool,
}

fn parent_sel() -> impl Strategy<Value = ParentSel> {
    prop_oneof![
        6 => Just(ParentSel::Latest),
        1 => Just(ParentSel::Nil),
        2 => any::<u16>().prop_map(ParentSel::Older),
        1 => (0u8..4).prop_map(ParentSel::Unknown),
    ]
}

fn payload(large_kb: u32) -> BoxedStrategy<Payload> {
    if large_kb == 0 {
        prop_oneof![1 => Just(Payload::Empty), 8 => proptest::collection::vec(any::<u8>(), 1..64).prop_map(Payload::Bytes)].boxed()
    } else {
        prop_oneof![
            1 => Just(Payload::Empty),
            8 => proptest::collection::vec(any::<u8>(), 1..64).prop_map(Payload::Bytes),
            1 => (100u32..large_kb, any::<u8>()).prop_map(|(k, f)| Payload::Large(k, f)),
        ]
        .boxed()
    }
}

pub fn strategy(backend: Backend, max_ops: usize) -> BoxedStrategy<Case> {
    let (hmax, snapshots, large) = match backend {
        Backend::Local1 => (1u8, false, 2000),
        Backend::Local2 => (2, false, 2000),
        Backend::GitLocal => (1, true, 300),
        Backend::GitRemote => (2, true, 300),
        Backend::ObjectStore => (3, true, 2000),
        Backend::Http => (2, true, 2000),
    };
    let op = if snapshots {
        prop_oneof![
            6 => (0..hmax, parent_sel(), payload(large)).prop_map(|(h, parent, payload)| SOp::AddVersion { h, parent, payload }),
            4 => (0..hmax, parent_sel()).prop_map(|(h, parent)| SOp::GetChild { h, parent }),
            2 => (0..hmax, any::<u16>(), payload(0)).prop_map(|(h, version, payload)| SOp::AddSnapshot { h, version, payload }),
            2 => (0..hmax).prop_map(|h| SOp::GetSnapshot { h }),
            if hmax > 1 { 2 } else { 0 } => (0..hmax, 0u8..5).prop_map(|(h, via)| SOp::StaleProbe { h, via }),
        ]
        .boxed()
    } else {
        prop_oneof![
            6 => (0..hmax, parent_sel(), payload(large)).prop_map(|(h, parent, payload)| SOp::AddVersion { h, parent, payload }),
            4 => (0..hmax, parent_sel()).prop_map(|(h, parent)| SOp::GetChild { h, parent }),
            1 => (0..hmax).prop_map(|h| SOp::GetSnapshot { h }),
            if hmax > 1 { 2 } else { 0 } => (0..hmax, prop_oneof![Just(0u8), Just(1u8), Just(3u8), Just(4u8)]).prop_map(|(h, via)| SOp::StaleProbe { h, via }),
        ]
        .boxed()
    };
    proptest::collection::vec(op, 1..=max_ops)
        .prop_map(move |ops| Case { backend, handles: hmax, ops, aged: false })
        .boxed()
}

pub fn payload_bytes(p: &Payload) -> Vec<u8> {
    match p {
        Payload::Empty => vec![],
        Payload::Bytes(b) => b.clone(),
        Payload::Large(kb, fill) => (0..*kb as usize * 1000).map(|i| (i as u8).wrapping_mul(13).wrapping_add(*fill)).collect(),
    }
}

/// The backend under test with everything that has to stay alive.
pub struct Bk {
    pub handles: Vec<Option<Box<dyn Server>>>,
    pub backend: Backend,
    dir: Option<tempfile::TempDir>,
    http: Option<HttpServer>,
    store: Option<ObjectStore>,
    cryptor: Option<Cryptor>,
    secret: Vec<u8>,
    client_id: Uuid,
}

fn git(dir: &std::path::Path, args: &[&str]) -> Result<(), Failure> {
    let out = Command::new("git")
        .args(args)
        .current_dir(dir)
        .output()
        .map_err(|e| Failure::new("infra", format!("cannot run git: {e}")))?;
    if !out.status.success() {
        return Err(Failure::new("infra", format!("git {args:?} failed: {}", String::from_utf8_lossy(&out.stderr))));
    }
    Ok(())
}

/// A cached derived key for the object-store configurations (600 000 PBKDF2 rounds per
/// derivation would dominate otherwise).
pub fn shared_cryptor() -> (Vec<u8>, Cryptor) {
    use std::sync::OnceLock;
    static C: OnceLock<(Vec<u8>, Cryptor)> = OnceLock::new();
    C.get_or_init(|| {
        let salt = b"0123456789abcdef".to_vec();
        (salt.clone(), Cryptor::new(&salt, b"c08 secret").expect("key derivation"))
    })
    .clone()
}

impl Bk {
    pub fn open(backend: Backend, n: usize) -> Result<Bk, Failure> {
        let mut bk = Bk {
            handles: (0..n).map(|_| None).collect(),
            backend,
            dir: None,
            http: None,
            store: None,
            cryptor: None,
            secret: b"c08 secret".to_vec(),
            client_id: Uuid::from_u128(0xc1_1e47),
        };
        match backend {
            Backend::Local1 | Backend::Local2 | Backend::GitLocal => {
                bk.dir = Some(tempfile::TempDir::new().map_err(|e| Failure::new("infra", format!("{e}")))?);
            }
            Backend::GitRemote => {
                let d = tempfile::TempDir::new().map_err(|e| Failure::new("infra", format!("{e}")))?;
                let remote = d.path().join("remote.git");
                std::fs::create_dir_all(&remote).unwrap();
                git(&remote, &["init", "--bare", "-b", "main"])?;
                bk.dir = Some(d);
            }
            Backend::ObjectStore => {
                let (salt, cr) = shared_cryptor();
                let store = ObjectStore::new(2);
                store.raw_put("salt", 0, salt);
                bk.store = Some(store);
                bk.cryptor = Some(cr);
                set_draws(vec![], Some(255));
            }
            Backend::Http => {
                bk.http = Some(HttpServer::start().map_err(|e| Failure::new("infra", format!("http server: {e}")))?);
            }
        }
        Ok(bk)
    }

    pub fn http(&self) -> Option<&HttpServer> {
        self.http.as_ref()
    }
    pub fn store(&self) -> Option<&ObjectStore> {
        self.store.as_ref()
    }
    pub fn cryptor(&self) -> Option<&Cryptor> {
        self.cryptor.as_ref()
    }
    pub fn secret(&self) -> &[u8] {
        &self.secret
    }
    pub fn client_id(&self) -> Uuid {
        self.client_id
    }
    pub fn dir_path(&self) -> Option<PathBuf> {
        self.dir.as_ref().map(|d| d.path().to_path_buf())
    }

    /// (Re)open handle h.
    pub fn make_handle(&mut self, h: usize) -> Result<(), Failure> {
        let e = |e: taskchampion::Error| Failure::new("backend-open", format!("cannot open the backend: {e}"));
        let s: Box<dyn Server> = match self.backend {
            Backend::Local1 | Backend::Local2 => block_on(
                ServerConfig::Local {
                    server_dir: self.dir.as_ref().unwrap().path().to_path_buf(),
                }
                .into_server(),
            )
            .map_err(e)?,
            Backend::GitLocal => block_on(
                ServerConfig::Git {
                    local_path: self.dir.as_ref().unwrap().path().join("repo"),
                    branch: "main".into(),
                    remote: None,
                    local_only: true,
                    encryption_secret: self.secret.clone(),
                    git_path: None,
                }
                .into_server(),
            )
            .map_err(e)?,
            Backend::GitRemote => {
                let base = self.dir.as_ref().unwrap().path();
                block_on(
                    ServerConfig::Git {
                        local_path: base.join(format!("clone{h}")),
                        branch: "main".into(),
                        remote: Some(base.join("remote.git").to_string_lossy().to_string()),
                        local_only: false,
                        encryption_secret: self.secret.clone(),
                        git_path: None,
                    }
                    .into_server(),
                )
                .map_err(e)?
            }
            Backend::ObjectStore => Box::new(cloud_server(
                self.store.as_ref().unwrap().handle(h),
                self.cryptor.as_ref().unwrap(),
            )),
            Backend::Http => Box::new(
                Blocking::new(ServerConfig::Remote {
                    url: self.http.as_ref().unwrap().url.clone(),
                    client_id: self.client_id,
                    encryption_secret: self.secret.clone(),
                })
                .map_err(e)?,
            ),
        };
        self.handles[h] = Some(s);
        Ok(())
    }

    pub fn drop_handle(&mut self, h: usize) {
        self.handles[h] = None;
    }

    /// Get handle h, opening it on first use.  For git-with-remote a second clone is created
    /// only once something has been pushed (the way a second replica is added in practice).
    pub fn handle(&mut self, h: usize, chain_nonempty: bool) -> Result<&mut Box<dyn Server>, Failure> {
        let mut h = h % self.handles.len();
        if self.backend == Backend::GitRemote && h > 0 && self.handles[h].is_none() && !chain_nonempty {
            h = 0;
        }
        if self.handles[h].is_none() {
            self.make_handle(h)?;
        }
        Ok(self.handles[h].as_mut().unwrap())
    }
}

#[derive(Default)]
pub struct ChainModel {
    pub versions: Vec<(Uuid, Uuid, Vec<u8>)>, // id, parent, bytes
    pub snapshots: Vec<(Uuid, Vec<u8>)>,
    /// stored data is older than the retention age: versions up to a stored snapshot's version
    /// may have been cleaned away
    pub aged: bool,
}

impl ChainModel {
    pub fn latest(&self) -> Uuid {
        self.versions.last().map(|v| v.0).unwrap_or(Uuid::nil())
    }
    fn resolve(&self, p: &ParentSel) -> Uuid {
        match p {
            ParentSel::Latest => self.latest(),
            ParentSel::Nil => Uuid::nil(),
            ParentSel::Older(i) => {
                if self.versions.is_empty() {
                    Uuid::nil()
                } else {
                    // any version id or parent id known so far
                    let n = self.versions.len();
                    self.versions[(*i as usize * n) >> 16].0
                }
            }
            ParentSel::Unknown(k) => Uuid::from_u128(0xdead_0000 + *k as u128),
        }
    }
    pub fn child_of(&self, parent: Uuid) -> Option<&(Uuid, Uuid, Vec<u8>)> {
        self.versions.iter().find(|v| v.1 == parent)
    }
    /// Is `version` at or before the version of a stored snapshot?
    pub fn covered(&self, version: Uuid) -> bool {
        let pos = |v: Uuid| self.versions.iter().position(|x| x.0 == v);
        match pos(version) {
            Some(p) => self.snapshots.iter().any(|(sv, _)| pos(*sv).map(|sp| p <= sp).unwrap_or(false)),
            None => false,
        }
    }
}

/// Read back the child of every known parent: nothing may have changed.
fn read_back(bk: &mut Bk, m: &ChainModel, h: usize, what: &str) -> Result<(), Failure> {
    let mut parents: Vec<Uuid> = m.versions.iter().map(|v| v.1).collect();
    parents.push(m.latest());
    for p in parents {
        let s = bk.handle(h, !m.versions.is_empty())?;
        let got = block_on(s.get_child_version(p))
            .map_err(|e| Failure::new("get-child-error", format!("{what}: get_child_version({p}) failed: {e}")))?;
        check_child(m, p, &got, what)?;
    }
    Ok(())
}

fn check_child(m: &ChainModel, parent: Uuid, got: &GetVersionResult, what: &str) -> Result<(), Failure> {
    match (m.child_of(parent), got) {
        (None, GetVersionResult::NoSuchVersion) => Ok(()),
        (Some((id, par, bytes)), GetVersionResult::Version { version_id, parent_version_id, history_segment }) => {
            crate::ensure!(
                version_id == id && parent_version_id == par,
                "wrong-child",
                "{what}: get_child_version({parent}) returned version {version_id} (parent {parent_version_id}), the chain has {id} (parent {par})"
            );
            crate::ensure!(
                history_segment == bytes,
                "child-bytes-differ",
                "{what}: get_child_version({parent}) returned {} bytes that differ from the {} bytes that were accepted",
                history_segment.len(),
                bytes.len()
            );
            Ok(())
        }
        (None, GetVersionResult::Version { version_id, .. }) => Err(Failure::new(
            "phantom-child",
            format!("{what}: get_child_version({parent}) returned version {version_id} but no accepted version has that parent"),
        )),
        // cleaned away because a stored snapshot covers it and it is older than the retention age
        (Some((id, ..)), GetVersionResult::NoSuchVersion) if m.aged && m.covered(*id) => Ok(()),
        (Some((id, ..)), GetVersionResult::NoSuchVersion) => Err(Failure::new(
            "child-missing",
            format!("{what}: get_child_version({parent}) says 'no such version' but {id} was accepted with that parent"),
        )),
    }
}

/// Date every git commit made by this process 200 days back (or stop doing so).  The variables
/// are process-wide: a campaign is either entirely aged or not at all.
pub fn set_git_dates(aged: bool) {
    for k in ["GIT_COMMITTER_DATE", "GIT_AUTHOR_DATE"] {
        if aged {
            let now = std::time::SystemTime::now().duration_since(std::time::UNIX_EPOCH).map(|d| d.as_secs()).unwrap_or(0);
            std::env::set_var(k, format!("{} +0000", now - 200 * 86_400));
        } else {
            std::env::remove_var(k);
        }
    }
}

pub fn check_case(c: &Case) -> CheckResult {
    let mut rep = CaseReport::default();
    let n = c.handles.max(1) as usize;
    if c.aged {
        set_git_dates(true);
        rep.class("git commits older than the retention age");
    }
    let mut bk = Bk::open(c.backend, n)?;
    let mut m = ChainModel { aged: c.aged, ..Default::default() };
    let (mut rejections, mut reads_after_rejection, mut alternations, mut last_h) = (0, 0, 0, usize::MAX);
    let mut interesting_payload = false;
    for (oi, op) in c.ops.iter().enumerate() {
        let what = format!("op {oi} {}", match op {
            SOp::AddVersion { h, parent, payload } => format!("AddVersion(h{h}, {parent:?}, {} bytes)", payload_bytes(payload).len()),
            other => format!("{other:?}"),
        });
        let h = match op {
            SOp::AddVersion { h, .. } | SOp::GetChild { h, .. } | SOp::AddSnapshot { h, .. } | SOp::GetSnapshot { h } | SOp::StaleProbe { h, .. } => *h as usize % n,
        };
        if last_h != usize::MAX && last_h != h {
            alternations += 1;
        }
        last_h = h;
        let nonempty = !m.versions.is_empty();
        match op {
            SOp::AddVersion { parent, payload, .. } => {
                let p = m.resolve(parent);
                let bytes = payload_bytes(payload);
                if bytes.len() > 50_000 || std::str::from_utf8(&bytes).is_err() {
                    interesting_payload = true;
                }
                // the harness HTTP server states a different urgency with every accepted version
                let stated = ((oi * 7 + bytes.len()) % 3) as u8;
                if let Some(hs) = bk.http() {
                    hs.state.lock().unwrap().urgency = stated;
                }
                let s = bk.handle(h, nonempty)?;
                let (res, urg) = block_on(s.add_version(p, bytes.clone()))
                    .map_err(|e| Failure::new("add-version-error", format!("{what}: add_version failed: {e}")))?;
                let should_accept = m.versions.is_empty() || p == m.latest();
                match res {
                    AddVersionResult::Ok(id) => {
                        if c.backend == Backend::Http {
                            crate::ensure!(
                                urg == crate::engine::mserver::urgency_of(stated),
                                "http-urgency",
                                "{what}: the server stated snapshot urgency {stated} (0 none, 1 low, 2 high) with the accepted version, the client reported {urg:?}"
                            );
                            rep.class_if(stated > 0, "http: snapshot urgency stated");
                        }
                        crate::ensure!(
                            should_accept,
                            "accepted-wrong-parent",
                            "{what}: a version with parent {p} was accepted although the latest version is {}",
                            m.latest()
                        );
                        crate::ensure!(
                            !id.is_nil() && !m.versions.iter().any(|v| v.0 == id),
                            "version-id-reused",
                            "{what}: the new version got the id {id} which is nil or already in use"
                        );
                        m.versions.push((id, p, bytes));
                    }
                    AddVersionResult::ExpectedParentVersion(l) if should_accept && c.backend == Backend::GitRemote && l == m.latest() => {
                        // The git server with a remote answers a rejected push this way even
                        // when the push was rejected because of an unrelated commit on the
                        // remote (another clone's snapshot or cleanup).  The statement only
                        // requires that acceptance implies 'parent is latest'; we require that
                        // nothing changed and that repeating the request now succeeds.
                        read_back(&mut bk, &m, h, &format!("{what} (after the spurious rejection)"))?;
                        let s = bk.handle(h, nonempty)?;
                        let (res2, _) = block_on(s.add_version(p, bytes.clone()))
                            .map_err(|e| Failure::new("add-version-error", format!("{what}: repeated add_version failed: {e}")))?;
                        match res2 {
                            AddVersionResult::Ok(id) => m.versions.push((id, p, bytes)),
                            AddVersionResult::ExpectedParentVersion(_) => crate::fail!(
                                "rejected-latest-parent",
                                "{what}: a version whose parent {p} is the latest version was rejected twice in a row with nothing else happening"
                            ),
                        }
                        rep.class("git-remote: correct parent rejected once because of an unrelated remote commit, accepted on retry");
                    }
                    AddVersionResult::ExpectedParentVersion(l) => {
                        crate::ensure!(
                            !should_accept,
                            "rejected-latest-parent",
                            "{what}: a version whose parent {p} is the latest version (or the first version) was rejected"
                        );
                        crate::ensure!(
                            l == m.latest(),
                            "rejection-names-wrong-version",
                            "{what}: the rejection names {l}, the latest version is {}",
                            m.latest()
                        );
                        rejections += 1;
                        // nothing changed
                        read_back(&mut bk, &m, h, &format!("{what} (after the rejection)"))?;
                        reads_after_rejection += 1;
                    }
                }
            }
            SOp::GetChild { parent, .. } => {
                let p = m.resolve(parent);
                let s = bk.handle(h, nonempty)?;
                let got = block_on(s.get_child_version(p))
                    .map_err(|e| Failure::new("get-child-error", format!("{what}: get_child_version failed: {e}")))?;
                check_child(&m, p, &got, &what)?;
                if rejections > 0 {
                    reads_after_rejection += 1;
                }
            }
            SOp::AddSnapshot { version, payload, .. } => {
                if m.versions.is_empty() {
                    continue;
                }
                let vi = (*version as usize * m.versions.len()) >> 16;
                let vid = m.versions[vi].0;
                let bytes = payload_bytes(payload);
                let s = bk.handle(h, nonempty)?;
                block_on(s.add_snapshot(vid, bytes.clone()))
                    .map_err(|e| Failure::new("add-snapshot-error", format!("{what}: add_snapshot failed: {e}")))?;
                m.snapshots.push((vid, bytes));
                rep.class("snapshot-stored");
            }
            SOp::StaleProbe { via, .. } => {
                if n < 2 {
                    continue;
                }
                let o = (h + 1) % n;
                let add = |bk: &mut Bk, m: &mut ChainModel, hh: usize, fill: u8, what: &str| -> Result<(), Failure> {
                    let p = m.latest();
                    let bytes = vec![fill; 3];
                    let nonempty = !m.versions.is_empty();
                    let s = bk.handle(hh, nonempty)?;
                    let (res, _) = block_on(s.add_version(p, bytes.clone()))
                        .map_err(|e| Failure::new("add-version-error", format!("{what}: add_version failed: {e}")))?;
                    match res {
                        AddVersionResult::Ok(id) => {
                            m.versions.push((id, p, bytes));
                            Ok(())
                        }
                        AddVersionResult::ExpectedParentVersion(l) => {
                            // git with a remote may reject once because of an unrelated remote commit
                            let s = bk.handle(hh, nonempty)?;
                            match block_on(s.add_version(p, bytes.clone()))
                                .map_err(|e| Failure::new("add-version-error", format!("{what}: repeated add_version failed: {e}")))?
                                .0
                            {
                                AddVersionResult::Ok(id) => {
                                    m.versions.push((id, p, bytes));
                                    Ok(())
                                }
                                AddVersionResult::ExpectedParentVersion(_) => Err(Failure::new(
                                    "rejected-latest-parent",
                                    format!("{what}: a version whose parent {p} is the latest version was rejected twice (first naming {l})"),
                                )),
                            }
                        }
                    }
                };
                // h adds a version itself, so the latest version it knows is its own
                add(&mut bk, &mut m, h, 0xA0, &format!("{what}: preparation through handle {h}"))?;
                let known = m.latest();
                add(&mut bk, &mut m, o, 0xB0, &format!("{what}: the other handle {o}"))?;
                match via {
                    1 => {
                        let s = bk.handle(h, true)?;
                        block_on(s.get_snapshot()).map_err(|e| Failure::new("get-snapshot-error", format!("{what}: get_snapshot failed: {e}")))?;
                    }
                    2 => {
                        let s = bk.handle(h, true)?;
                        let bytes = vec![0x5A; 5];
                        block_on(s.add_snapshot(known, bytes.clone()))
                            .map_err(|e| Failure::new("add-snapshot-error", format!("{what}: add_snapshot failed: {e}")))?;
                        m.snapshots.push((known, bytes));
                    }
                    3 => {
                        let s = bk.handle(h, true)?;
                        let got = block_on(s.get_child_version(Uuid::from_u128(0xdead_0000)))
                            .map_err(|e| Failure::new("get-child-error", format!("{what}: get_child_version failed: {e}")))?;
                        check_child(&m, Uuid::from_u128(0xdead_0000), &got, &what)?;
                    }
                    4 => {
                        let s = bk.handle(h, true)?;
                        let got = block_on(s.get_child_version(Uuid::nil()))
                            .map_err(|e| Failure::new("get-child-error", format!("{what}: get_child_version failed: {e}")))?;
                        check_child(&m, Uuid::nil(), &got, &what)?;
                    }
                    _ => {}
                }
                let s = bk.handle(h, true)?;
                let (res, _) = block_on(s.add_version(known, vec![0xC0]))
                    .map_err(|e| Failure::new("add-version-error", format!("{what}: add_version failed: {e}")))?;
                match res {
                    AddVersionResult::Ok(_) => crate::fail!(
                        "accepted-wrong-parent",
                        "{what}: handle {h} added {known}, handle {o} added {} on top of it, and then a version with parent {known} was accepted through handle {h}",
                        m.latest()
                    ),
                    AddVersionResult::ExpectedParentVersion(l) => crate::ensure!(
                        l == m.latest(),
                        "rejection-names-wrong-version",
                        "{what}: the rejection names {l}, the latest version is {}",
                        m.latest()
                    ),
                }
                rejections += 1;
                read_back(&mut bk, &m, h, &format!("{what} (after the rejection)"))?;
                reads_after_rejection += 1;
                rep.class("stale-handle-probe");
            }
            SOp::GetSnapshot { .. } => {
                let s = bk.handle(h, nonempty)?;
                let got = block_on(s.get_snapshot())
                    .map_err(|e| Failure::new("get-snapshot-error", format!("{what}: get_snapshot failed: {e}")))?;
                match got {
                    None => crate::ensure!(
                        m.snapshots.is_empty(),
                        "snapshot-lost",
                        "{what}: get_snapshot returned nothing although {} snapshots were stored",
                        m.snapshots.len()
                    ),
                    Some((vid, bytes)) => crate::ensure!(
                        m.snapshots.iter().any(|(v, b)| *v == vid && *b == bytes),
                        "snapshot-not-intact",
                        "{what}: get_snapshot returned ({vid}, {} bytes) which is not a (version, bytes) pair that was stored",
                        bytes.len()
                    ),
                }
            }
        }
    }
    // final read-back through every handle, and a walk from the root through a fresh handle
    for h in 0..n {
        read_back(&mut bk, &m, h, &format!("final read-back through handle {h}"))?;
    }
    if bk.backend != Backend::GitRemote {
        bk.drop_handle(0);
    }
    read_back(&mut bk, &m, 0, "final read-back through a reopened handle")?;
    if let Some(h) = bk.http() {
        let st = h.state.lock().unwrap();
        crate::ensure!(
            st.protocol_errors.is_empty(),
            "http-protocol",
            "the HTTP client violated http.md: {:?}",
            st.protocol_errors
        );
    }
    rep.class_if(rejections > 0, "rejection");
    rep.class_if(alternations > 0, "multi-handle-alternation");
    rep.class_if(interesting_payload, "large-or-non-utf8-payload");
    rep.class(match c.backend {
        Backend::Local1 => "backend:local",
        Backend::Local2 => "backend:local-2-handles",
        Backend::GitLocal => "backend:git-local-only",
        Backend::GitRemote => "backend:git-with-remote",
        Backend::ObjectStore => "backend:object-store",
        Backend::Http => "backend:http",
    });
    rep.nontrivial = (rejections > 0 && reads_after_rejection > 0) || alternations > 0 || interesting_payload;
    Ok(rep)
}

// ---------------------------------------------------------------------------------------------
// whole replicas through each backend

#[derive(Clone, Debug, PartialEq, Eq, Hash, Serialize, Deserialize)]
pub struct RepCase {
    pub backend: Backend,
    pub actions: Vec<Action>,
}

pub fn rep_strategy(backend: Backend, max: usize) -> BoxedStrategy<RepCase> {
    let replicas = match backend {
        Backend::Local1 | Backend::GitLocal => 2u8, // replicas share the single handle
        _ => 2,
    };
    proptest::collection::vec(super::common::action_strategy(replicas, 2, 0), 1..=max)
        .prop_map(move |actions| RepCase { backend, actions })
        .boxed()
}

pub fn check_replicas(c: &RepCase) -> CheckResult {
    let mut rep = CaseReport::default();
    let nh = match c.backend {
        Backend::Local1 | Backend::GitLocal => 1,
        _ => 2,
    };
    let mut bk = Bk::open(c.backend, nh)?;
    let mut reps = [Rep::mem(&pool()), Rep::mem(&pool())];
    let mut rz = [Realizer::new(0), Realizer::new(1)];
    let mut pushed = false;
    let mut syncs = 0;
    for (ai, a) in c.actions.iter().enumerate() {
        match a {
            Action::Commit { r, intents } => {
                let r = *r as usize % 2;
                let mut local = reps[r].tasks();
                let mut ops = vec![];
                rz[r].realize(intents, &mut local, &mut ops);
                reps[r].commit(ops).map_err(|e| Failure::new("commit-error", format!("{e}")))?;
            }
            Action::Sync { r } => {
                let r = *r as usize % 2;
                let s = bk.handle(r % nh, pushed)?;
                reps[r]
                    .sync(s, false)
                    .map_err(|e| Failure::new("sync-error", format!("action {ai}: sync of replica {r} through {:?} failed: {e:?}", c.backend)))?;
                // something is on the chain once a replica has a non-nil base version
                pushed = pushed || !reps[r].dump().base.is_nil();
                syncs += 1;
            }
            Action::Big { .. } => {}
        }
    }
    for _ in 0..2 {
        for r in 0..2 {
            let s = bk.handle(r % nh, pushed)?;
            reps[r]
                .sync(s, false)
                .map_err(|e| Failure::new("sync-error", format!("quiesce: sync of replica {r} through {:?} failed: {e:?}", c.backend)))?;
            pushed = pushed || !reps[r].dump().base.is_nil();
        }
    }
    // walk the chain through a fresh handle and replay it
    if c.backend != Backend::GitRemote {
        bk.drop_handle(0);
    }
    let mut m = Model::new();
    let mut p = Uuid::nil();
    let mut n = 0;
    loop {
        let s = bk.handle(0, true)?;
        match block_on(s.get_child_version(p)).map_err(|e| Failure::new("get-child-error", format!("walk: {e}")))? {
            GetVersionResult::Version { version_id, parent_version_id, history_segment } => {
                crate::ensure!(parent_version_id == p, "wrong-child", "walk: child of {p} claims parent {parent_version_id}");
                m.apply_all(&parse_version(&history_segment).map_err(|e| Failure::new("bad-version", e))?);
                p = version_id;
                n += 1;
                crate::ensure!(n < 10_000, "chain-cycle", "walk does not terminate");
            }
            GetVersionResult::NoSuchVersion => break,
        }
    }
    for r in 0..2 {
        let t = reps[r].tasks();
        crate::ensure!(
            t == m,
            "diverged-from-chain",
            "after quiescence through {:?} replica {r} holds\n  {}\nbut the walk of the backend's chain ({n} versions) replays to\n  {}",
            c.backend,
            t.render(),
            m.render()
        );
        crate::ensure!(reps[r].num_local() == 0, "quiesce-pending", "replica {r} still has local operations");
    }
    rep.nontrivial = n >= 2 && syncs >= 2;
    rep.class_if(n >= 2, "chain-of-2+-versions");
    let _ = Intent::Undo;
    Ok(rep)
}

const CHEAP: [Backend; 4] = [Backend::Local1, Backend::Local2, Backend::ObjectStore, Backend::Http];

pub fn run(e: &Engine) {
    e.assume("the HTTP configuration runs the real client against a server written from http.md in the harness; the real taskchampion-sync-server is not in the image");
    e.assume("the local server is never sent a snapshot (callers only do so on urgency >= low, which it never states); a second git clone is created only after the first push");
    e.assume("which of several stored snapshots get_snapshot returns is unspecified: membership and integrity are required");
    let rule = "generated sequences of add-version (parent = latest / nil / an older version / a never-seen id; payload empty, 1-63 random bytes incl. invalid UTF-8, or 100 kB-2 MB), get-child-version, add-snapshot, get-snapshot from 1-3 handles against ONE reference chain model; after every rejection and at the end every known parent is read back through every handle and a reopened one; non-trivial = a rejection followed by a read, alternation between handles, or a large/non-UTF-8 payload";
    for b in CHEAP {
        e.campaign(
            &format!("chain-{b:?}"),
            rule,
            e.tier.pick(300, 9000),
            move || strategy(b, 14),
            |c| serde_json::json!({"backend": format!("{:?}", c.backend), "ops": c.ops.iter().map(|o| match o { SOp::AddVersion { h, parent, payload } => format!("AddVersion(h{h}, {parent:?}, {} bytes)", payload_bytes(payload).len()), other => format!("{other:?}") }).collect::<Vec<_>>()}),
            check_case,
        );
    }
    e.set_shrink_iters(40);
    for b in [Backend::GitLocal, Backend::GitRemote] {
        e.set_worker_cap(4);
        e.campaign(
            &format!("chain-{b:?}"),
            rule,
            e.tier.pick(if b == Backend::GitRemote { 16 } else { 32 }, 240),
            move || strategy(b, if b == Backend::GitRemote { 9 } else { 12 }),
            |c| serde_json::json!({"backend": format!("{:?}", c.backend), "ops": c.ops.iter().map(|o| match o { SOp::AddVersion { h, parent, payload } => format!("AddVersion(h{h}, {parent:?}, {} bytes)", payload_bytes(payload).len()), other => format!("{other:?}") }).collect::<Vec<_>>()}),
            check_case,
        );
    }
    // the git cleanup that follows add_snapshot only removes files committed more than 180 days
    // ago: the same sequences with every commit dated 200 days back
    e.set_worker_cap(4);
    set_git_dates(true);
    e.campaign(
        "chain-GitLocal-aged",
        "as chain-GitLocal with every commit dated 200 days back (GIT_COMMITTER_DATE), so that the cleanup after add_snapshot removes the version files the snapshot covers; a version at or before a stored snapshot's version may then be missing, every other accepted version must still be served",
        e.tier.pick(24, 400),
        move || {
            strategy(Backend::GitLocal, 12)
                .prop_map(|mut c| {
                    c.aged = true;
                    // half of the snapshots are for the latest version: then the cleanup removes
                    // every version file, and the chain head is known from the meta file alone
                    // and each of those is followed at once by a version with a wrong parent
                    let mut ops = vec![];
                    for mut op in c.ops.drain(..) {
                        let mut follow = None;
                        if let SOp::AddSnapshot { h, version, .. } = &mut op {
                            if *version % 2 == 1 {
                                follow = Some(SOp::AddVersion {
                                    h: *h,
                                    parent: match *version % 3 {
                                        0 => ParentSel::Nil,
                                        1 => ParentSel::Unknown(1),
                                        _ => ParentSel::Older(0),
                                    },
                                    payload: Payload::Bytes(vec![7]),
                                });
                                *version = 0xFFFF;
                            }
                        }
                        ops.push(op);
                        ops.extend(follow);
                    }
                    c.ops = ops;
                    c
                })
                .boxed()
        },
        |c| serde_json::json!({"backend": "GitLocal, commits dated 200 days back", "ops": c.ops.iter().map(|o| match o { SOp::AddVersion { h, parent, payload } => format!("AddVersion(h{h}, {parent:?}, {} bytes)", payload_bytes(payload).len()), other => format!("{other:?}") }).collect::<Vec<_>>()}),
        check_case,
    );
    set_git_dates(false);
    for b in [Backend::Local2, Backend::ObjectStore, Backend::Http, Backend::GitLocal, Backend::GitRemote] {
        let git = matches!(b, Backend::GitLocal | Backend::GitRemote);
        e.set_shrink_iters(if git { 40 } else { 2000 });
        e.set_worker_cap(if git { 4 } else { u64::MAX });
        e.campaign(
            &format!("replicas-through-{b:?}"),
            "two real replicas run a generated commit/sync history through the backend, then quiesce; both must equal the reference replay of a walk of the backend's chain from the root through a fresh handle; non-trivial = a chain of >= 2 versions",
            if git { e.tier.pick(12, 120) } else { e.tier.pick(150, 4500) },
            move || rep_strategy(b, if git { 8 } else { 16 }),
            |c| serde_json::json!({"backend": format!("{:?}", c.backend), "actions": c.actions.iter().map(super::common::render_action).collect::<Vec<_>>()}),
            check_replicas,
        );
    }
}
