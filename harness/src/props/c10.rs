//! C10 — object-store cleanup never deletes history that is still needed.

use super::c08::shared_cryptor;
use super::c12::encode_snapshot;
use super::common::pool;
use crate::engine::exec::block_on;
use crate::engine::model::{Model, MOp};
use crate::engine::rep::Rep;
use crate::engine::sched::{run_scheduled, Client};
use crate::engine::{CaseReport, CheckResult, Engine, Failure};
use proptest::prelude::*;
use serde::{Deserialize, Serialize};
use std::collections::{BTreeMap, BTreeSet};
use taskchampion::server::verif::{cloud_server, set_draws, CloudHandle, Cryptor, ObjectStore, StoreFault, StoreRequest};
use taskchampion::server::{AddVersionResult, GetVersionResult, Server};
use taskchampion::Uuid;

const DAY: u64 = 86_400;

#[derive(Clone, Debug, PartialEq, Eq, Hash, Serialize, Deserialize)]
pub enum KOp {
    Add { stale: bool, then_cleanup: bool },
    AddSnapshot { sel: u16 },
    /// run cleanup; `fail_at`: this request of the cleanup fails (the cleanup stops midway)
    Cleanup { fail_at: Option<u8> },
    GetChild { sel: u16 },
}

#[derive(Clone, Debug, PartialEq, Eq, Hash, Serialize, Deserialize)]
pub struct Case {
    /// length of the pre-existing chain and how many of its first versions are older than the
    /// retention age (creation times are non-decreasing along the chain)
    pub chain: u8,
    pub old: u8,
    /// bit i set = a snapshot exists for initial version i
    pub snapshots: u16,
    /// orphan objects: 0 none, bit 0 = loser sibling of an inner version, bit 1 = candidate
    /// child of the latest version, bit 2 = unrelated garbage
    pub orphans: u8,
    pub page_size: u8,
    pub scripts: Vec<Vec<KOp>>,
    pub schedule: Vec<u8>,
}

pub fn strategy() -> BoxedStrategy<Case> {
    (1u8..=8, 0u8..=8, any::<u16>(), 0u8..8, 1u8..4, 1usize..=3)
        .prop_flat_map(|(chain, old, snapshots, orphans, page_size, clients)| {
            let kop = prop_oneof![
                4 => (prop_oneof![5 => Just(false), 1 => Just(true)], prop_oneof![2 => Just(false), 1 => Just(true)])
                    .prop_map(|(stale, then_cleanup)| KOp::Add { stale, then_cleanup }),
                2 => any::<u16>().prop_map(|sel| KOp::AddSnapshot { sel }),
                5 => proptest::option::weighted(0.3, 0u8..30).prop_map(|fail_at| KOp::Cleanup { fail_at }),
                1 => any::<u16>().prop_map(|sel| KOp::GetChild { sel }),
            ];
            (
                proptest::collection::vec(proptest::collection::vec(kop, 1..=4), clients),
                proptest::collection::vec(any::<u8>(), 0..120),
            )
                .prop_map(move |(scripts, schedule)| Case {
                    chain,
                    old: old.min(chain),
                    snapshots: if chain == 0 { 0 } else { snapshots & ((1u16 << chain) - 1) },
                    orphans,
                    page_size,
                    scripts,
                    schedule,
                })
        })
        .boxed()
}

fn task() -> Uuid {
    Uuid::from_u128(0x7a5c)
}

/// Every version rewrites the whole state, so the state at a version depends on it alone.
fn version_bytes(tag: &str) -> Vec<u8> {
    format!(
        r#"{{"operations":[{{"Create":{{"uuid":"{t}"}}}},{{"Update":{{"uuid":"{t}","property":"last","value":"{tag}","timestamp":"2024-01-01T00:00:00Z"}}}}]}}"#,
        t = task()
    )
    .into_bytes()
}

fn state_for(tag: &str) -> Model {
    let mut m = Model::new();
    m.apply(&MOp::Create(task()));
    m.apply(&MOp::Update(task(), "last".into(), Some(tag.into()), String::new()));
    m
}

#[derive(Clone, Debug)]
pub struct Ver {
    pub id: Uuid,
    pub parent: Uuid,
    pub tag: String,
    pub old: bool,
}

#[derive(Clone, Debug)]
pub enum Ev {
    Accepted { parent: Uuid, id: Uuid, tag: String },
    Snapshot { version: Uuid },
    CleanupDone { ok: bool },
    Error(String),
}

fn vname(p: Uuid, c: Uuid) -> String {
    format!("v-{}-{}", p.as_simple(), c.as_simple())
}
fn sname(v: Uuid) -> String {
    format!("s-{}", v.as_simple())
}

async fn run_client(
    mut srv: CloudHandle,
    store: ObjectStore,
    client: usize,
    script: Vec<KOp>,
    initial: Vec<Ver>,
) -> Vec<Ev> {
    let mut ev = vec![];
    let mut view = initial.last().map(|v| v.id).unwrap_or(Uuid::nil());
    let mut stale_view = initial.first().map(|v| v.parent).unwrap_or(Uuid::nil());
    let mut known: Vec<Uuid> = std::iter::once(Uuid::nil()).chain(initial.iter().map(|v| v.id)).collect();
    let mut accepted: Vec<(Uuid, String)> = vec![];
    for (i, op) in script.iter().enumerate() {
        match op {
            KOp::Add { stale, then_cleanup } => {
                let parent = if *stale { stale_view } else { view };
                let tag = format!("c{client}o{i}");
                match srv.add_version(parent, version_bytes(&tag)).await {
                    Ok((AddVersionResult::Ok(id), _)) => {
                        ev.push(Ev::Accepted { parent, id, tag: tag.clone() });
                        stale_view = view;
                        view = id;
                        known.push(id);
                        accepted.push((id, tag));
                        if *then_cleanup {
                            let ok = srv.cleanup().await.is_ok();
                            ev.push(Ev::CleanupDone { ok });
                        }
                    }
                    Ok((AddVersionResult::ExpectedParentVersion(x), _)) => {
                        stale_view = view;
                        view = x;
                    }
                    Err(e) => ev.push(Ev::Error(format!("add_version: {e}"))),
                }
            }
            KOp::AddSnapshot { sel } => {
                if accepted.is_empty() {
                    continue;
                }
                let (v, tag) = accepted[(*sel as usize * accepted.len()) >> 16].clone();
                match srv.add_snapshot(v, encode_snapshot(&state_for(&tag))).await {
                    Ok(()) => ev.push(Ev::Snapshot { version: v }),
                    Err(e) => ev.push(Ev::Error(format!("add_snapshot: {e}"))),
                }
            }
            KOp::Cleanup { fail_at } => {
                if let Some(k) = fail_at {
                    store.arm(vec![(*k as usize, StoreFault::ErrorBefore)]);
                }
                let r = srv.cleanup().await;
                store.arm(vec![]);
                ev.push(Ev::CleanupDone { ok: r.is_ok() });
            }
            KOp::GetChild { sel } => {
                let parent = known[(*sel as usize * known.len()) >> 16];
                // errors are possible here once history has been cleaned up; results are
                // judged at quiescence
                if let Ok(GetVersionResult::Version { version_id, .. }) = srv.get_child_version(parent).await {
                    if !known.contains(&version_id) {
                        known.push(version_id);
                    }
                }
            }
        }
    }
    ev
}

pub struct World10 {
    pub store: ObjectStore,
    pub cryptor: Cryptor,
    pub initial: Vec<Ver>,
    pub initial_snapshots: Vec<Uuid>,
    pub orphans: Vec<(String, Uuid)>, // object name, parent
    /// replicas synced up to initial version i (index i; index 0 = before any version)
    pub replicas: Vec<(usize, Rep)>,
    pub now: u64,
}

pub fn build(c: &Case) -> Result<World10, Failure> {
    let (salt, cryptor) = shared_cryptor();
    let store = ObjectStore::new(c.page_size as usize);
    store.raw_put("salt", 0, salt);
    set_draws(vec![], Some(255));
    // the retention age is measured against the real clock
    let now = std::time::SystemTime::now()
        .duration_since(std::time::UNIX_EPOCH)
        .unwrap()
        .as_secs();
    let mut srv = cloud_server(store.handle(90), &cryptor);
    let mut initial: Vec<Ver> = vec![];
    let mut replicas = vec![];
    let mut p = Uuid::nil();
    for i in 0..c.chain as usize {
        let old = i < c.old as usize;
        // old prefix: 400..181 days, recent suffix: 100..0 days; non-decreasing along the chain
        let t = if old { now - 400 * DAY + i as u64 * DAY } else { now - 100 * DAY + i as u64 * DAY };
        store.set_clock(t);
        let tag = format!("init{i}");
        match block_on(srv.add_version(p, version_bytes(&tag))) {
            Ok((AddVersionResult::Ok(id), _)) => {
                initial.push(Ver { id, parent: p, tag, old });
                p = id;
            }
            other => crate::fail!("setup", "initial chain: {other:?}"),
        }
        // a replica that last synced at this version
        let mut r = Rep::mem(&pool());
        let mut h: Box<dyn Server> = Box::new(cloud_server(store.handle(91), &cryptor));
        r.sync(&mut h, false).map_err(|e| Failure::new("setup", format!("replica sync during setup: {e}")))?;
        replicas.push((i + 1, r));
    }
    let mut initial_snapshots = vec![];
    for (i, v) in initial.iter().enumerate() {
        if c.snapshots & (1 << i) != 0 {
            store.set_clock(now - 50 * DAY);
            block_on(srv.add_snapshot(v.id, encode_snapshot(&state_for(&v.tag))))
                .map_err(|e| Failure::new("setup", format!("snapshot: {e}")))?;
            initial_snapshots.push(v.id);
        }
    }
    // orphans
    let mut orphans = vec![];
    let latest = initial.last().map(|v| v.id).unwrap_or(Uuid::nil());
    let mut put_orphan = |parent: Uuid, k: u128, t: u64| {
        let id = Uuid::from_u128(0x0bad_0000 + k);
        let sealed = cryptor.seal(id, version_bytes("orphan")).unwrap();
        store.raw_put(&vname(parent, id), t, sealed);
        orphans.push((vname(parent, id), parent));
    };
    if c.orphans & 1 != 0 && initial.len() >= 2 {
        put_orphan(initial[0].parent, 1, now - 300 * DAY);
        put_orphan(initial[initial.len() - 2].parent, 2, now - DAY);
    }
    if c.orphans & 2 != 0 {
        put_orphan(latest, 3, now - 10);
    }
    if c.orphans & 4 != 0 {
        put_orphan(Uuid::from_u128(0x0bad_ffff), 4, now - 300 * DAY);
    }
    store.set_clock(now);
    store.clear_log();
    Ok(World10 {
        store,
        cryptor,
        initial,
        initial_snapshots,
        orphans,
        replicas,
        now,
    })
}

pub fn judge(w: &mut World10, events: &[Vec<Ev>], log: &[StoreRequest], rep: &mut CaseReport) -> Result<(), Failure> {
    for (c, evs) in events.iter().enumerate() {
        for e in evs {
            if let Ev::Error(msg) = e {
                crate::fail!("client-error", "client {c}: {msg}");
            }
        }
    }
    // the true chain: initial versions, then accepted versions in compare-and-swap order
    let mut chain: Vec<Ver> = w.initial.clone();
    {
        let mut acc: BTreeMap<Uuid, (Uuid, String)> = BTreeMap::new();
        for e in events.iter().flatten() {
            if let Ev::Accepted { parent, id, tag } = e {
                acc.insert(*id, (*parent, tag.clone()));
            }
        }
        let mut last_put: BTreeMap<usize, Uuid> = BTreeMap::new();
        for r in log {
            if r.kind == "put" && r.name.starts_with("v-") {
                if let Ok(id) = Uuid::parse_str(&r.name[35..]) {
                    last_put.insert(r.client, id);
                }
            }
            if r.kind == "cas" && r.name == "latest" && r.result {
                if let Some(id) = last_put.get(&r.client) {
                    if let Some((parent, tag)) = acc.get(id) {
                        chain.push(Ver { id: *id, parent: *parent, tag: tag.clone(), old: false });
                    }
                }
            }
        }
        crate::ensure!(
            chain.len() == w.initial.len() + acc.len(),
            "harness-bug",
            "could not order the accepted versions by their compare-and-swap"
        );
        let mut p = Uuid::nil();
        for v in &chain {
            crate::ensure!(v.parent == p, "two-children-accepted", "accepted versions do not form a chain at {}", v.id);
            p = v.id;
        }
    }
    let n = chain.len();
    let index_of: BTreeMap<Uuid, usize> = chain.iter().enumerate().map(|(i, v)| (v.id, i + 1)).collect(); // 1-based
    let objects: BTreeMap<String, (u64, Vec<u8>)> = w.store.raw_list().into_iter().map(|(n, t, v)| (n, (t, v))).collect();
    let present = |v: &Ver| objects.contains_key(&vname(v.parent, v.id));
    // snapshots ever stored / still there
    let mut ever: BTreeSet<Uuid> = w.initial_snapshots.iter().copied().collect();
    for e in events.iter().flatten() {
        if let Ev::Snapshot { version } = e {
            ever.insert(*version);
        }
    }
    let retained: BTreeSet<Uuid> = objects
        .keys()
        .filter_map(|k| k.strip_prefix("s-"))
        .filter_map(|s| Uuid::parse_str(s).ok())
        .collect();
    for s in &retained {
        crate::ensure!(ever.contains(s), "stray-object", "snapshot object for {s} was never stored by anybody");
    }
    // (1)
    if !ever.is_empty() {
        crate::ensure!(
            retained.iter().any(|s| index_of.contains_key(s)),
            "all-snapshots-deleted",
            "{} snapshots were stored but none for a version on the chain remains",
            ever.len()
        );
    }
    let max_snap = retained.iter().filter_map(|s| index_of.get(s)).max().copied().unwrap_or(0);
    // (3) what was deleted was allowed to be deleted
    for (i, v) in chain.iter().enumerate() {
        let idx = i + 1;
        if !present(v) {
            crate::ensure!(
                v.old && idx <= max_snap,
                if v.old { "deleted-version-not-covered-by-a-snapshot" } else { "deleted-recent-version" },
                "version #{idx} of {n} ({}) was deleted; it is {} and the newest retained snapshot is at #{max_snap} (a version may only go when it is older than the retention age AND covered by a retained snapshot)",
                v.id,
                if v.old { "older than the retention age" } else { "younger than the retention age" }
            );
            rep.class("old-covered-version-deleted");
        }
    }
    for s in &ever {
        if !retained.contains(s) {
            let idx = index_of.get(s).copied().unwrap_or(0);
            crate::ensure!(
                max_snap > idx,
                "needed-snapshot-deleted",
                "the snapshot for version #{idx} was deleted although no snapshot for a later version on the chain is retained (newest retained: #{max_snap})"
            );
            rep.class("redundant-snapshot-deleted");
        }
    }
    let latest = chain.last().map(|v| v.id).unwrap_or(Uuid::nil());
    for (name, parent) in &w.orphans {
        if !objects.contains_key(name) {
            crate::ensure!(
                *parent != latest,
                "deleted-candidate-child-of-latest",
                "object {name} was deleted although its parent is still the latest version (its writer may be about to commit it)"
            );
            rep.class("orphan-deleted");
        }
    }
    // (2) from every retained snapshot (or from the root) the rest of the chain is retrievable
    let mut fresh = cloud_server(w.store.handle(1000), &w.cryptor);
    let mut starts: Vec<usize> = retained.iter().filter_map(|s| index_of.get(s)).copied().collect();
    if ever.is_empty() {
        starts.push(0);
    }
    for start in starts {
        for i in start..n {
            let v = &chain[i];
            let got = block_on(fresh.get_child_version(v.parent))
                .map_err(|e| Failure::new("walk-error", format!("get_child_version failed while walking from snapshot #{start}: {e}")))?;
            match got {
                GetVersionResult::Version { version_id, history_segment, .. } => crate::ensure!(
                    version_id == v.id && history_segment == version_bytes(&v.tag),
                    "walk-wrong-version",
                    "walking from snapshot #{start}: the child of #{i} is not version #{} with its bytes",
                    i + 1
                ),
                GetVersionResult::NoSuchVersion => crate::fail!(
                    "history-after-snapshot-lost",
                    "walking from {}: version #{} of {n} is no longer retrievable",
                    if start == 0 { "the root (no snapshot exists)".to_string() } else { format!("retained snapshot #{start}") },
                    i + 1
                ),
            }
        }
    }
    match block_on(fresh.get_snapshot()).map_err(|e| Failure::new("get-snapshot-error", format!("{e}")))? {
        Some((v, bytes)) => {
            crate::ensure!(retained.contains(&v), "snapshot-not-intact", "get_snapshot returned a snapshot for {v} which is not stored");
            let idx = index_of[&v];
            crate::ensure!(bytes == encode_snapshot(&state_for(&chain[idx - 1].tag)), "snapshot-not-intact", "snapshot #{idx} content changed");
        }
        None => crate::ensure!(retained.is_empty(), "snapshot-lost", "get_snapshot returns nothing although {} snapshots are stored", retained.len()),
    }
    // (4) replicas: a fresh one, and every pre-existing one whose next versions the rules retain
    let want = if n == 0 { Model::new() } else { state_for(&chain[n - 1].tag) };
    let min_safe_base = (w.initial.iter().filter(|v| v.old).count()).min(max_snap);
    let mut reps: Vec<(String, Rep)> = vec![("a fresh replica".to_string(), Rep::mem(&pool()))];
    for (b, r) in w.replicas.drain(..) {
        if b >= min_safe_base {
            reps.push((format!("a replica last synced at version #{b}"), r));
        } else {
            rep.class("replica-based-on-deletable-history (nothing promised)");
        }
    }
    for (who, mut r) in reps {
        let mut h: Box<dyn Server> = Box::new(cloud_server(w.store.handle(1001), &w.cryptor));
        r.sync(&mut h, false).map_err(|e| {
            Failure::new(
                "replica-cannot-sync",
                format!("{who} cannot sync after the run: {e:?} (chain of {n}, newest retained snapshot #{max_snap})"),
            )
        })?;
        let t = r.tasks();
        crate::ensure!(
            t == want,
            "replica-wrong-state",
            "{who} synced to\n  {}\nexpected the latest state\n  {}",
            t.render(),
            want.render()
        );
    }
    Ok(())
}

fn classify(log: &[StoreRequest], events: &[Vec<Ev>], rep: &mut CaseReport) -> bool {
    // a cleanup's requests overlapped another client's add_version / add_snapshot / cleanup:
    // between the first and last request of a cleanup (its del/list s-/list v- requests),
    // another client performed a put or a cas
    let mut cleanup_clients: BTreeSet<usize> = BTreeSet::new();
    for (c, evs) in events.iter().enumerate() {
        if evs.iter().any(|e| matches!(e, Ev::CleanupDone { .. })) {
            cleanup_clients.insert(c);
        }
    }
    let mut nontrivial = false;
    for &c in &cleanup_clients {
        // spans of consecutive list("v-") ... requests by c
        let idxs: Vec<usize> = log.iter().enumerate().filter(|(_, r)| r.client == c && r.kind == "list" && r.name == "v-").map(|(i, _)| i).collect();
        for &start in &idxs {
            // the cleanup ends at this client's next put (a later add_version) or the log end
            let end = log.iter().enumerate().skip(start + 1).find(|(_, r)| r.client == c && r.kind == "put").map(|(i, _)| i).unwrap_or(log.len());
            for r in &log[start..end] {
                if r.client != c {
                    match (r.kind, r.name.as_str()) {
                        ("cas", "latest") | ("put", _) if r.kind == "cas" || r.name.starts_with("v-") => {
                            rep.class("cleanup-overlapped-add-version");
                            nontrivial = true;
                        }
                        ("put", n) if n.starts_with("s-") => {
                            rep.class("cleanup-overlapped-add-snapshot");
                            nontrivial = true;
                        }
                        ("del", _) => {
                            rep.class("cleanup-overlapped-another-cleanup");
                            nontrivial = true;
                        }
                        _ => {}
                    }
                }
            }
        }
    }
    if events.iter().flatten().any(|e| matches!(e, Ev::CleanupDone { ok: false })) {
        rep.class("cleanup-stopped-midway");
    }
    nontrivial
}

pub fn check_case(c: &Case) -> CheckResult {
    let mut rep = CaseReport::default();
    let mut w = build(c)?;
    let mut clients: Vec<Client<'_, Vec<Ev>>> = vec![];
    for (i, script) in c.scripts.iter().enumerate() {
        let h = w.store.handle(i);
        h.set_gated(true);
        let srv = cloud_server(h.clone(), &w.cryptor);
        clients.push(Box::pin(run_client(srv, h, i, script.clone(), w.initial.clone())));
    }
    let res = run_scheduled(clients, &c.schedule);
    let log = w.store.log();
    rep.class_if(c.old > 0, "old-versions-present");
    rep.class_if(c.snapshots != 0, "initial-snapshots");
    rep.nontrivial = classify(&log, &res.outputs, &mut rep);
    judge(&mut w, &res.outputs, &log, &mut rep)?;
    Ok(rep)
}

pub fn render(c: &Case) -> serde_json::Value {
    serde_json::json!({
        "initial_chain": c.chain, "older_than_retention": c.old,
        "snapshots_at": (0..16).filter(|i| c.snapshots & (1 << i) != 0).collect::<Vec<_>>(),
        "orphans": c.orphans, "list_page_size": c.page_size,
        "client_scripts": c.scripts.iter().map(|s| format!("{s:?}")).collect::<Vec<_>>(),
        "schedule": c.schedule,
    })
}

pub fn run(e: &Engine) {
    e.assume("creation times are non-decreasing along the chain (creation order follows commit order on a real store); the retention age is measured against the real clock with margins of days");
    e.assume("replicas based on a version that the rules allow to delete (older than 180 days and covered by a retained snapshot) are promised nothing; a cleanup that stopped halfway is judged by the same retention rules");
    e.set_shrink_iters(1500);
    e.campaign(
        "cleanup-schedules",
        "initial store: chain of 0-8 versions with an old prefix and a recent suffix, snapshots at generated positions, orphan objects (loser siblings, a candidate child of latest, unrelated garbage), one replica synced at every initial version; 1-3 clients with scripts of add-version (optionally followed by cleanup), add-snapshot, cleanup (optionally failing at its k-th request), get-child; generated schedule at single-request granularity, list page size 1-3; retention rules evaluated on the final store, walks from every retained snapshot, fresh and old replicas must sync to the latest state; non-trivial = a cleanup's requests overlapped another client's add-version, add-snapshot or cleanup",
        e.tier.pick(8000, 300_000),
        strategy,
        render,
        check_case,
    );
}
