//! C14 — what is sent to the server is the documented operation format only; and any version
//! written in that format by another implementation is applied correctly.

use super::common::{pool, World};
use crate::engine::model::{parse_version, task_uuid, Model, MOp};
use crate::engine::rep::Rep;
use crate::engine::{CaseReport, CheckResult, Engine, Failure};
use chrono::{TimeZone, Utc};
use proptest::prelude::*;
use serde::{Deserialize, Serialize};
use serde_json::Value;
use taskchampion::{Operation, Uuid};

// ---------------------------------------------------------------------------------------------
// outbound

#[derive(Clone, Debug, PartialEq, Eq, Hash, Serialize, Deserialize)]
pub enum WOp {
    Create { t: u8 },
    Delete { t: u8 },
    Set { t: u8, prop: String, value: Option<String>, secs: u32, nanos: u32 },
    Undo,
    Sync,
    /// a sync during which request number `k` to the server fails: before the server sees it, or
    /// (lost) after the server has carried it out
    SyncFault { k: u8, lost: bool },
    /// one update of `kb` kilobytes (to cross the batching threshold)
    Big { t: u8, kb: u16 },
}

#[derive(Clone, Debug, PartialEq, Eq, Hash, Serialize, Deserialize)]
pub struct OutCase {
    pub ops: Vec<WOp>,
}

pub fn any_string() -> BoxedStrategy<String> {
    prop_oneof![
        4 => "\\PC{0,12}",
        2 => "[a-z_]{1,8}",
        2 => any::<String>().prop_map(|s| s.chars().take(10).collect()),
        1 => Just("\"quoted\" \\ back\u{0}slash\n\ttab \u{7f}".to_string()),
        1 => Just("old_value".to_string()),
        1 => Just(String::new()),
    ]
    .boxed()
}

fn wop_strategy() -> impl Strategy<Value = WOp> {
    prop_oneof![
        2 => (0u8..3).prop_map(|t| WOp::Create { t }),
        2 => (0u8..3).prop_map(|t| WOp::Delete { t }),
        10 => (0u8..3, any_string(), proptest::option::weighted(0.8, any_string()), 0u32..4_000_000_000u32,
               prop_oneof![Just(0u32), 0u32..1_000_000_000, Just(999_999_999u32), Just(500_000_000u32)])
            .prop_map(|(t, prop, value, secs, nanos)| WOp::Set { t, prop, value, secs, nanos }),
        2 => Just(WOp::Undo),
        3 => Just(WOp::Sync),
        1 => (0u8..4, any::<bool>()).prop_map(|(k, lost)| WOp::SyncFault { k, lost }),
    ]
}

pub fn out_strategy(max: usize, big: bool) -> BoxedStrategy<OutCase> {
    if big {
        proptest::collection::vec(
            prop_oneof![
                6 => wop_strategy(),
                3 => (0u8..3, 400u16..700).prop_map(|(t, kb)| WOp::Big { t, kb }),
            ],
            0..=max,
        )
        .prop_map(|ops| OutCase { ops })
        .boxed()
    } else {
        proptest::collection::vec(wop_strategy(), 0..=max)
            .prop_map(|ops| OutCase { ops })
            .boxed()
    }
}

/// Strict RFC 3339 "Z" timestamp parser: YYYY-MM-DDTHH:MM:SS[.fraction]Z -> (unix secs, nanos)
pub fn parse_rfc3339_z(s: &str) -> Result<(i64, u32), String> {
    let b = s.as_bytes();
    let err = || format!("timestamp {s:?} is not RFC 3339 with a Z suffix");
    if b.len() < 20 || *b.last().unwrap() != b'Z' {
        return Err(err());
    }
    let digits = |r: std::ops::Range<usize>| -> Result<i64, String> {
        let part = s.get(r).ok_or_else(err)?;
        if part.is_empty() || !part.bytes().all(|c| c.is_ascii_digit()) {
            return Err(err());
        }
        part.parse::<i64>().map_err(|_| err())
    };
    if b[4] != b'-' || b[7] != b'-' || b[10] != b'T' || b[13] != b':' || b[16] != b':' {
        return Err(err());
    }
    let (y, mo, d, h, mi, sec) = (
        digits(0..4)?,
        digits(5..7)?,
        digits(8..10)?,
        digits(11..13)?,
        digits(14..16)?,
        digits(17..19)?,
    );
    let mut nanos = 0u32;
    let rest = &s[19..s.len() - 1];
    if !rest.is_empty() {
        let frac = rest.strip_prefix('.').ok_or_else(err)?;
        if frac.is_empty() || frac.len() > 9 || !frac.bytes().all(|c| c.is_ascii_digit()) {
            return Err(err());
        }
        let mut v: u32 = frac.parse().map_err(|_| err())?;
        for _ in frac.len()..9 {
            v *= 10;
        }
        nanos = v;
    }
    // days from civil (Howard Hinnant)
    let (yy, mm) = if mo <= 2 { (y - 1, mo + 9) } else { (y, mo - 3) };
    let era = yy.div_euclid(400);
    let yoe = yy - era * 400;
    let doy = (153 * mm + 2) / 5 + d - 1;
    let doe = yoe * 365 + yoe / 4 - yoe / 100 + doy;
    let days = era * 146097 + doe - 719468;
    Ok((days * 86400 + h * 3600 + mi * 60 + sec, nanos))
}

#[derive(Clone, Debug, PartialEq, Eq)]
enum Proj {
    Create(Uuid),
    Delete(Uuid),
    Update(Uuid, String, Option<String>, i64, u32),
}

/// Exact structural check of one history segment; returns its operations.
fn check_wire_format(bytes: &[u8]) -> Result<Vec<Proj>, Failure> {
    let text = std::str::from_utf8(bytes)
        .map_err(|e| Failure::new("wire-not-utf8", format!("a version is not UTF-8: {e}")))?;
    let v: Value = serde_json::from_str(text)
        .map_err(|e| Failure::new("wire-not-json", format!("a version is not JSON: {e}")))?;
    let list = match &v {
        Value::Array(a) => a,
        Value::Object(o) => {
            crate::ensure!(
                o.len() == 1 && o.contains_key("operations"),
                "wire-extra-key",
                "the version wrapper has keys {:?}, expected only 'operations'",
                o.keys().collect::<Vec<_>>()
            );
            o["operations"].as_array().ok_or_else(|| {
                Failure::new("wire-shape", "'operations' is not a list".to_string())
            })?
        }
        _ => crate::fail!("wire-shape", "a version is neither a list nor an object"),
    };
    let mut out = vec![];
    for item in list {
        let obj = item
            .as_object()
            .ok_or_else(|| Failure::new("wire-shape", format!("operation is not an object: {item}")))?;
        crate::ensure!(
            obj.len() == 1,
            "wire-shape",
            "operation must have exactly one key: {item}"
        );
        let (kind, data) = obj.iter().next().unwrap();
        let data = data
            .as_object()
            .ok_or_else(|| Failure::new("wire-shape", format!("operation data is not an object: {item}")))?;
        let keys: Vec<&str> = data.keys().map(|k| k.as_str()).collect();
        let uuid_s = data.get("uuid").and_then(|u| u.as_str()).unwrap_or("");
        let uuid = Uuid::parse_str(uuid_s)
            .map_err(|_| Failure::new("wire-uuid", format!("operation without a valid uuid: {item}")))?;
        crate::ensure!(
            uuid_s == uuid.hyphenated().to_string(),
            "wire-uuid",
            "uuid {uuid_s:?} is not in the documented hyphenated lower-case form"
        );
        match kind.as_str() {
            "Create" | "Delete" => {
                crate::ensure!(
                    keys == ["uuid"],
                    "wire-extra-field",
                    "{kind} operation has fields {keys:?}, the documented format has only uuid (previous values / old task contents must not leave the replica)"
                );
                out.push(if kind == "Create" {
                    Proj::Create(uuid)
                } else {
                    Proj::Delete(uuid)
                });
            }
            "Update" => {
                let mut sorted = keys.clone();
                sorted.sort();
                crate::ensure!(
                    sorted == ["property", "timestamp", "uuid", "value"],
                    "wire-extra-field",
                    "Update operation has fields {keys:?}, the documented format has exactly uuid, property, value, timestamp"
                );
                let prop = data["property"]
                    .as_str()
                    .ok_or_else(|| Failure::new("wire-shape", "property is not a string".to_string()))?;
                let value = match &data["value"] {
                    Value::Null => None,
                    Value::String(s) => Some(s.clone()),
                    other => crate::fail!("wire-shape", "update value is neither string nor null: {other}"),
                };
                let ts = data["timestamp"]
                    .as_str()
                    .ok_or_else(|| Failure::new("wire-shape", "timestamp is not a string".to_string()))?;
                let (secs, nanos) =
                    parse_rfc3339_z(ts).map_err(|e| Failure::new("wire-timestamp", e))?;
                out.push(Proj::Update(uuid, prop.to_string(), value, secs, nanos));
            }
            other => crate::fail!(
                "wire-kind",
                "operation kind {other:?} is not one of Create, Delete, Update (undo points must not leave the replica)"
            ),
        }
    }
    Ok(out)
}

pub fn check_outbound(c: &OutCase) -> CheckResult {
    let mut w = World::new(1);
    let mut rep = CaseReport::default();
    let mut committed: Vec<Proj> = vec![];
    let mut local = Model::new();
    let mut seen_versions = 0usize;
    let mut sent: Vec<Proj> = vec![];
    let mut counter = 0u32;
    let mut pending_interesting = false;
    let mut nontrivial = false;
    let mut ops_all = c.ops.clone();
    ops_all.push(WOp::Sync);
    for (i, op) in ops_all.iter().enumerate() {
        let mut ops: Vec<Operation> = vec![];
        match op {
            WOp::Create { t } => {
                let uuid = task_uuid(*t as usize);
                if !local.0.contains_key(&uuid) {
                    ops.push(Operation::Create { uuid });
                }
            }
            WOp::Delete { t } => {
                let uuid = task_uuid(*t as usize);
                if let Some(old) = local.0.get(&uuid) {
                    if !old.is_empty() {
                        pending_interesting = true;
                        rep.class("delete-of-populated-task");
                    }
                    ops.push(Operation::Delete {
                        uuid,
                        old_task: old.iter().map(|(k, v)| (k.clone(), v.clone())).collect(),
                    });
                }
            }
            WOp::Set { t, prop, value, secs, nanos } => {
                let uuid = task_uuid(*t as usize);
                if !local.0.contains_key(&uuid) {
                    ops.push(Operation::Create { uuid });
                }
                let old_value = local.0.get(&uuid).and_then(|m| m.get(prop)).cloned();
                if old_value.is_some() {
                    rep.class("update-with-previous-value");
                }
                if *nanos != 0 {
                    pending_interesting = true;
                    rep.class("sub-second-timestamp");
                }
                if !prop.is_ascii()
                    || value.as_ref().map(|v| !v.is_ascii()).unwrap_or(false)
                    || prop.chars().chain(value.iter().flat_map(|v| v.chars())).any(|ch| ch == '"' || ch == '\\' || (ch as u32) < 0x20)
                {
                    pending_interesting = true;
                    rep.class("non-ascii-or-escaped-string");
                }
                ops.push(Operation::Update {
                    uuid,
                    property: prop.clone(),
                    old_value,
                    value: value.clone(),
                    timestamp: Utc.timestamp_opt(*secs as i64, *nanos).unwrap(),
                });
            }
            WOp::Big { t, kb } => {
                let uuid = task_uuid(*t as usize);
                if !local.0.contains_key(&uuid) {
                    ops.push(Operation::Create { uuid });
                }
                counter += 1;
                let mut value = format!("big{counter}:");
                value.extend(std::iter::repeat('é').take(*kb as usize * 500));
                let old_value = local.0.get(&uuid).and_then(|m| m.get("big")).cloned();
                ops.push(Operation::Update {
                    uuid,
                    property: "big".into(),
                    old_value,
                    value: Some(value),
                    timestamp: Utc.timestamp_opt(1_700_000_000, 1).unwrap(),
                });
                rep.class("big-update");
            }
            WOp::Undo => {
                ops.push(Operation::UndoPoint);
                rep.class("undo-point");
            }
            WOp::SyncFault { k, lost } => {
                use crate::engine::mserver::ServerFault;
                w.ctls[0].arm(vec![(*k as usize, if *lost { ServerFault::LostReply } else { ServerFault::ErrBefore })]);
                let failed = w.sync(0).is_err();
                w.ctls[0].disarm();
                if failed {
                    rep.class(if *lost { "sync-interrupted:reply-lost" } else { "sync-interrupted:request-failed" });
                }
                // what was sent is examined at the next successful sync
                continue;
            }
            WOp::Sync => {
                w.sync(0).map_err(|e| {
                    Failure::new("sync-error", format!("step {i}: sync failed: {e}"))
                })?;
                let st = w.server.state.borrow();
                let new = &st.versions[seen_versions..];
                if new.len() >= 2 {
                    rep.class("multi-batch");
                }
                for v in new {
                    sent.extend(check_wire_format(&v.bytes)?);
                }
                if !new.is_empty() && pending_interesting {
                    nontrivial = true;
                }
                pending_interesting = false;
                seen_versions = st.versions.len();
                // everything committed so far must have been sent, in order, nothing else
                crate::ensure!(
                    sent == committed,
                    "wire-projection",
                    "step {i}: the operations sent to the server are not the projection of the committed operations (minus undo points), in order: sent {} operations, committed {}\nsent: {:?}\ncommitted: {:?}",
                    sent.len(),
                    committed.len(),
                    sent.iter().take(8).collect::<Vec<_>>(),
                    committed.iter().take(8).collect::<Vec<_>>()
                );
                continue;
            }
        }
        if ops.is_empty() {
            continue;
        }
        for o in &ops {
            local.apply_operation(o);
            match o {
                Operation::Create { uuid } => committed.push(Proj::Create(*uuid)),
                Operation::Delete { uuid, .. } => committed.push(Proj::Delete(*uuid)),
                Operation::Update { uuid, property, value, timestamp, .. } => committed.push(Proj::Update(
                    *uuid,
                    property.clone(),
                    value.clone(),
                    timestamp.timestamp(),
                    timestamp.timestamp_subsec_nanos(),
                )),
                Operation::UndoPoint => {}
            }
        }
        w.reps[0]
            .commit(ops)
            .map_err(|e| Failure::new("commit-error", format!("step {i}: commit failed: {e}")))?;
    }
    w.check_converged()?;
    rep.nontrivial = nontrivial;
    Ok(rep)
}

/// Multi-replica histories: format check only (conflicts change what is sent).
pub fn check_outbound_multi(h: &super::common::History) -> CheckResult {
    let n = h.replicas as usize;
    let mut w = World::new(n);
    let mut rep = CaseReport::default();
    let mut flags = super::common::RunFlags::default();
    super::common::run_actions(&mut w, &h.actions, &mut rep, &mut flags)?;
    w.quiesce_and_check()?;
    let st = w.server.state.borrow();
    for v in &st.versions {
        check_wire_format(&v.bytes)?;
    }
    rep.nontrivial = flags.pull_and_push && st.versions.len() >= 2;
    Ok(rep)
}

// ---------------------------------------------------------------------------------------------
// inbound

#[derive(Clone, Debug, PartialEq, Eq, Hash, Serialize, Deserialize)]
pub enum DOp {
    Create { t: u8 },
    Delete { t: u8 },
    Update { t: u8, prop: String, value: Option<String>, secs: u32, frac: String },
}

#[derive(Clone, Debug, PartialEq, Eq, Hash, Serialize, Deserialize)]
pub struct Doc {
    pub ops: Vec<(DOp, u8, u8)>, // op, field-order permutation, whitespace/escape style
    pub bare: bool,
}

#[derive(Clone, Debug, PartialEq, Eq, Hash, Serialize, Deserialize)]
pub struct InCase {
    pub docs: Vec<Doc>,
}

fn dop_strategy() -> impl Strategy<Value = DOp> {
    prop_oneof![
        3 => (0u8..3).prop_map(|t| DOp::Create { t }),
        2 => (0u8..3).prop_map(|t| DOp::Delete { t }),
        10 => (0u8..3, any_string(), proptest::option::weighted(0.8, any_string()), 0u32..4_000_000_000u32, "[0-9]{0,9}")
            .prop_map(|(t, prop, value, secs, frac)| DOp::Update { t, prop, value, secs, frac }),
    ]
}

pub fn in_strategy() -> BoxedStrategy<InCase> {
    proptest::collection::vec(
        (
            proptest::collection::vec((dop_strategy(), any::<u8>(), any::<u8>()), 0..8),
            Just(false),
        )
            .prop_map(|(ops, bare)| Doc { ops, bare }),
        1..5,
    )
    .prop_map(|docs| InCase { docs })
    .boxed()
}

fn json_string(s: &str, style: u8) -> String {
    // style bit 0: escape every non-ASCII char as \uXXXX (with surrogate pairs);
    // style bit 1: escape some ASCII chars as \uXXXX too
    let mut out = String::from("\"");
    for ch in s.chars() {
        let c = ch as u32;
        let must = ch == '"' || ch == '\\' || c < 0x20;
        if must || (style & 1 != 0 && c > 0x7e) || (style & 2 != 0 && ch.is_ascii_alphabetic() && c % 3 == 0) {
            let mut buf = [0u16; 2];
            for u in ch.encode_utf16(&mut buf) {
                out.push_str(&format!("\\u{:04x}", u));
            }
        } else {
            out.push(ch);
        }
    }
    out.push('"');
    out
}

fn ws(style: u8, k: u8) -> &'static str {
    match (style >> 2).wrapping_add(k) % 4 {
        0 => "",
        1 => " ",
        2 => "\n  ",
        _ => "\t",
    }
}

fn fmt_ts(secs: u32, frac: &str) -> String {
    let dt = Utc.timestamp_opt(secs as i64, 0).unwrap();
    let base = dt.format("%Y-%m-%dT%H:%M:%S").to_string();
    if frac.is_empty() {
        format!("{base}Z")
    } else {
        format!("{base}.{frac}Z")
    }
}

fn render_doc(d: &Doc) -> (String, Vec<MOp>, bool) {
    let mut items = vec![];
    let mut mops = vec![];
    let mut noncanonical = false;
    for (op, perm, style) in &d.ops {
        let s = *style;
        match op {
            DOp::Create { t } | DOp::Delete { t } => {
                let kind = if matches!(op, DOp::Create { .. }) { "Create" } else { "Delete" };
                let u = task_uuid(*t as usize);
                items.push(format!(
                    "{{{}\"{kind}\"{}:{}{{{}\"uuid\"{}:{}\"{u}\"{}}}{}}}",
                    ws(s, 0), ws(s, 1), ws(s, 2), ws(s, 3), ws(s, 4), ws(s, 5), ws(s, 6), ws(s, 7)
                ));
                mops.push(if kind == "Create" { MOp::Create(u) } else { MOp::Delete(u) });
            }
            DOp::Update { t, prop, value, secs, frac } => {
                let u = task_uuid(*t as usize);
                let ts = fmt_ts(*secs, frac);
                let fields = [
                    format!("\"uuid\"{}:{}\"{u}\"", ws(s, 1), ws(s, 2)),
                    format!("\"property\"{}:{}{}", ws(s, 3), ws(s, 4), json_string(prop, s)),
                    format!(
                        "\"value\"{}:{}{}",
                        ws(s, 5),
                        ws(s, 6),
                        match value {
                            Some(v) => json_string(v, s),
                            None => "null".to_string(),
                        }
                    ),
                    format!("\"timestamp\"{}:{}\"{ts}\"", ws(s, 7), ws(s, 8)),
                ];
                // permutation of the 4 fields
                let mut idx = vec![0usize, 1, 2, 3];
                let mut p = *perm as usize % 24;
                let mut order = vec![];
                for k in (1..=4).rev() {
                    order.push(idx.remove(p % k));
                    p /= k;
                }
                if order != [0, 1, 2, 3] || (frac.len() != 9 && !frac.is_empty()) || s & 3 != 0 {
                    noncanonical = true;
                }
                let body: Vec<String> = order.iter().map(|i| fields[*i].clone()).collect();
                items.push(format!(
                    "{{\"Update\"{}:{}{{{}{}{}}}}}",
                    ws(s, 0),
                    ws(s, 9),
                    ws(s, 10),
                    body.join(&format!("{},{}", ws(s, 11), ws(s, 12))),
                    ws(s, 13)
                ));
                mops.push(MOp::Update(u, prop.clone(), value.clone(), ts));
            }
        }
    }
    let list = format!("[{}]", items.join(" , "));
    let text = if d.bare { list } else { format!("{{ \"operations\" : {list} }}") };
    (text, mops, noncanonical)
}

pub fn check_inbound(c: &InCase) -> CheckResult {
    let mut w = World::new(1);
    let mut rep = CaseReport::default();
    let mut want = Model::new();
    let mut nontrivial = false;
    for d in &c.docs {
        let (text, mops, nc) = render_doc(d);
        // the harness's own reader must agree with what the grammar meant
        let parsed = parse_version(text.as_bytes())
            .map_err(|e| Failure::new("harness-bug", format!("generated document unreadable: {e}\n{text}")))?;
        crate::ensure!(parsed == mops, "harness-bug", "generated document does not mean what was intended");
        want.apply_all(&mops);
        w.server.preload(text.into_bytes());
        if nc {
            nontrivial = true;
            rep.class("non-canonical-field-order-precision-or-escapes");
        }
    }
    // a replica with local state of its own, too
    let fresh = w.add_replica(Rep::mem(&pool()));
    for r in [0, fresh] {
        let res = std::panic::catch_unwind(std::panic::AssertUnwindSafe(|| w.sync(r)));
        match res {
            Ok(Ok(())) => {}
            Ok(Err(e)) => crate::fail!("inbound-rejected", "a replica failed to sync a well-formed version written by another implementation: {e}"),
            Err(p) => crate::fail!(
                "inbound-panic",
                "a replica panicked on a well-formed version written by another implementation: {}",
                crate::engine::exec::panic_message(&p)
            ),
        }
        let got = w.reps[r].tasks();
        crate::ensure!(
            got == want,
            "inbound-misapplied",
            "after applying {} hand-written versions the replica holds\n  {}\nbut the documented semantics give\n  {}",
            c.docs.len(),
            got.render(),
            want.render()
        );
    }
    rep.nontrivial = nontrivial;
    Ok(rep)
}

pub fn run(e: &Engine) {
    e.assume("versions are inspected in plaintext at the Server trait boundary");
    e.assume("inbound documents use the {\"operations\": [...]} wrapper the implementation has always used (sync-protocol.md's examples show the bare list); malformed documents are out of scope");
    e.campaign(
        "outbound",
        "single-replica sequences of create/delete/set (arbitrary Unicode property names and values, second and nanosecond timestamps)/undo-point/sync; every transmitted version checked field by field and the concatenation compared with the committed operations minus undo points; non-trivial = a transmitted stretch contained a non-ASCII/escaped string, a sub-second timestamp or a delete of a populated task",
        e.tier.pick(60_000, 1_500_000),
        || out_strategy(30, false),
        |c| serde_json::to_value(c).unwrap(),
        check_outbound,
    );
    e.campaign(
        "outbound-multibatch",
        "as 'outbound' with updates of 200-350 kB multi-byte text so that pending changes are sent as several versions",
        e.tier.pick(200, 4000),
        || out_strategy(12, true),
        |c| serde_json::json!({"ops": c.ops.iter().map(|o| match o { WOp::Big { t, kb } => format!("big update of t{t}, {kb}x500 two-byte chars"), other => format!("{other:?}") }).collect::<Vec<_>>()}),
        check_outbound,
    );
    e.campaign(
        "outbound-multi-replica",
        "multi-replica histories with conflicts: every version on the chain checked field by field; non-trivial = some sync both pulled and pushed",
        e.tier.pick(20_000, 500_000),
        || super::common::history_strategy(3, 3, 24, 0),
        super::common::render_history,
        check_outbound_multi,
    );
    e.campaign(
        "inbound",
        "1-4 versions produced by a grammar (permuted field order, varied whitespace, \\uXXXX escapes incl. surrogate pairs, 0-9 fractional digits, operations on missing/existing tasks) pre-loaded into the harness server; an empty replica syncs and must equal the reference replay; non-trivial = a document with non-canonical field order, precision or escapes",
        e.tier.pick(60_000, 1_500_000),
        in_strategy,
        |c| serde_json::json!({"documents": c.docs.iter().map(|d| render_doc(d).0).collect::<Vec<_>>()}),
        check_inbound,
    );
    e.fuzz_corpus("c14_inbound");
    e.fuzz_campaign("c14_inbound", 500000);
}
