//! C13 — data leaving the host is sealed, version-bound and tamper-evident.

use super::common::{pool, Intent, Realizer};
use crate::engine::crypto::{doc_derive_key, doc_open, doc_seal};
use crate::engine::exec::block_on;
use crate::engine::model::{parse_version, task_uuid};
use crate::engine::rep::Rep;
use crate::engine::{hash_of, CaseReport, CheckResult, Engine, Failure};
use proptest::prelude::*;
use serde::{Deserialize, Serialize};
use std::collections::BTreeSet;
use taskchampion::server::verif::{cloud_server_new, Cryptor, ObjectStore};
use taskchampion::server::{GetVersionResult, Server};
use taskchampion::{ServerConfig, Uuid};

#[derive(Clone, Debug, PartialEq, Eq, Hash, Serialize, Deserialize)]
pub struct Item {
    pub version: u128,
    pub len: u32,
    pub fill: u8,
    pub nonce: [u8; 12],
}

#[derive(Clone, Debug, PartialEq, Eq, Hash, Serialize, Deserialize)]
pub struct KeyCase {
    pub secret: Vec<u8>,
    pub salt: Vec<u8>,
    pub items: Vec<Item>,
    pub other_secret: Vec<u8>,
    pub other_salt: Vec<u8>,
}

pub fn key_strategy(items: usize) -> BoxedStrategy<KeyCase> {
    let item = (
        any::<u128>(),
        prop_oneof![4 => 0u32..64, 3 => 64u32..400, 1 => 400u32..70_000, 1 => Just(0u32)],
        any::<u8>(),
        any::<[u8; 12]>(),
    )
        .prop_map(|(version, len, fill, nonce)| Item { version, len, fill, nonce });
    (
        proptest::collection::vec(any::<u8>(), 0..64),
        prop_oneof![3 => proptest::collection::vec(any::<u8>(), 16), 1 => proptest::collection::vec(any::<u8>(), 0..40)],
        proptest::collection::vec(item, items..=items),
        proptest::collection::vec(any::<u8>(), 0..64),
        proptest::collection::vec(any::<u8>(), 0..32),
    )
        .prop_map(|(secret, salt, items, other_secret, other_salt)| KeyCase {
            secret,
            salt,
            items,
            other_secret,
            other_salt,
        })
        .boxed()
}

fn payload_of(it: &Item) -> Vec<u8> {
    (0..it.len).map(|i| (i as u8).wrapping_mul(31).wrapping_add(it.fill)).collect()
}

/// every nonce the crate produced in this run (for the per-position freshness check)
static NONCES: std::sync::Mutex<Vec<[u8; 12]>> = std::sync::Mutex::new(Vec::new());

/// "a fresh random 12-byte nonce": over n >= 64 nonces every one of the 96 bit positions must
/// take both values (a fixed bit would survive with probability 2^-(n-1)).
pub fn check_nonce_positions(nonces: &[[u8; 12]]) -> Result<(), Failure> {
    if nonces.len() < 64 {
        return Ok(());
    }
    for byte in 0..12 {
        for bit in 0..8 {
            let ones = nonces.iter().filter(|n| n[byte] & (1 << bit) != 0).count();
            crate::ensure!(
                ones != 0 && ones != nonces.len(),
                "nonce-not-random",
                "bit {bit} of nonce byte {byte} has the same value in all {} nonces produced in this run: the nonce is not 12 fresh random bytes",
                nonces.len()
            );
        }
    }
    Ok(())
}

pub fn check_key(c: &KeyCase) -> CheckResult {
    let mut rep = CaseReport::default();
    let cr = Cryptor::new(&c.salt, &c.secret)
        .map_err(|e| Failure::new("cryptor-new", format!("key derivation failed: {e}")))?;
    let key = doc_derive_key(&c.secret, &c.salt);
    let mut nonces: BTreeSet<[u8; 12]> = BTreeSet::new();
    let mut regions: BTreeSet<&'static str> = BTreeSet::new();
    for it in &c.items {
        let vid = Uuid::from_u128(it.version);
        let payload = payload_of(it);
        // (a) what the crate seals is the documented form
        let sealed = cr
            .seal(vid, payload.clone())
            .map_err(|e| Failure::new("seal-error", format!("seal failed: {e}")))?;
        crate::ensure!(
            sealed.len() == 1 + 12 + payload.len() + 16,
            "sealed-length",
            "sealing {} bytes gives {} bytes, the documented form has format byte + 12-byte nonce + ciphertext + 16-byte tag",
            payload.len(),
            sealed.len()
        );
        crate::ensure!(sealed[0] == 1, "format-byte", "format byte is {}, documented: 1", sealed[0]);
        let opened = doc_open(&key, vid.as_bytes(), &sealed).map_err(|e| {
            Failure::new(
                "not-the-documented-scheme",
                format!("a value sealed by the crate does not open with an independent implementation of the documented scheme (PBKDF2-HMAC-SHA256 x600000, ChaCha20-Poly1305, AAD = 0x01 || version id): {e}"),
            )
        })?;
        crate::ensure!(opened == payload, "open-differs", "independent open yields different bytes");
        let nonce: [u8; 12] = sealed[1..13].try_into().unwrap();
        crate::ensure!(
            nonces.insert(nonce),
            "nonce-reused",
            "the nonce {nonce:?} was used for two seals under one key"
        );
        let sealed2 = cr.seal(vid, payload.clone()).map_err(|e| Failure::new("seal-error", format!("{e}")))?;
        crate::ensure!(sealed2 != sealed, "seal-deterministic", "sealing the same input twice gave identical output (no fresh nonce)");
        nonces.insert(sealed2[1..13].try_into().unwrap());
        {
            let mut all = NONCES.lock().unwrap();
            all.push(nonce);
            all.push(sealed2[1..13].try_into().unwrap());
        }
        // the crate opens what an independent implementation seals
        let foreign = doc_seal(&key, vid.as_bytes(), &it.nonce, &payload);
        let back = cr.unseal(vid, foreign.clone()).map_err(|e| {
            Failure::new(
                "rejects-documented-form",
                format!("the crate rejects a value sealed by an independent implementation of the documented scheme: {e}"),
            )
        })?;
        crate::ensure!(back == payload, "unseal-differs", "unseal of an independently sealed value yields different bytes");
        let own = cr.unseal(vid, sealed.clone()).map_err(|e| Failure::new("round-trip", format!("own value rejected: {e}")))?;
        crate::ensure!(own == payload, "round-trip", "round trip changed the payload");

        // (b) tamper sweep: nothing modified may open
        let must_fail = |what: &str, region: &'static str, vid: Uuid, bytes: Vec<u8>, cr: &Cryptor| -> Result<(), Failure> {
            match cr.unseal(vid, bytes) {
                Err(_) => Ok(()),
                Ok(data) => Err(Failure::new(
                    format!("tamper-accepted:{region}"),
                    format!("{what}: unseal returned {} bytes instead of an error", data.len()),
                )),
            }
        };
        let full = sealed.len() <= 460;
        let positions: Vec<usize> = if full {
            (0..sealed.len()).collect()
        } else {
            // format byte, nonce, first/last ciphertext bytes, tag, and a spread in between
            let mut p: Vec<usize> = (0..40).collect();
            p.extend((40..sealed.len() - 40).step_by(sealed.len() / 97 + 1));
            p.extend(sealed.len() - 40..sealed.len());
            p
        };
        for &pos in &positions {
            let region = if pos == 0 {
                "format-byte"
            } else if pos < 13 {
                "nonce"
            } else if pos >= sealed.len() - 16 {
                "tag"
            } else {
                "ciphertext"
            };
            regions.insert(region);
            for x in [0x01u8, 0x80, 0xff] {
                let mut t = sealed.clone();
                t[pos] ^= x;
                must_fail(&format!("byte {pos} ({region}) xor {x:#x}"), region, vid, t, &cr)?;
                rep.extra_evals += 1;
            }
        }
        let trunc: Vec<usize> = if full { (0..sealed.len()).collect() } else { (0..64).chain(sealed.len() - 64..sealed.len()).collect() };
        for n in trunc {
            must_fail(&format!("truncation to {n} bytes"), "truncation", vid, sealed[..n].to_vec(), &cr)?;
            rep.extra_evals += 1;
        }
        for extra in [1usize, 16, 17] {
            let mut t = sealed.clone();
            t.extend(std::iter::repeat(0u8).take(extra));
            must_fail(&format!("extension by {extra} bytes"), "extension", vid, t, &cr)?;
        }
        for bit in 0..128 {
            let other = Uuid::from_u128(it.version ^ (1u128 << bit));
            must_fail(&format!("version id with bit {bit} changed"), "version-id", other, sealed.clone(), &cr)?;
            rep.extra_evals += 1;
        }
        // a foreign application id in the associated data
        {
            let mut out = vec![1u8];
            out.extend_from_slice(&it.nonce);
            out.extend_from_slice(&crate::engine::crypto::aead_seal(
                &key,
                &it.nonce,
                &crate::engine::crypto::doc_aad(2, vid.as_bytes()),
                &payload,
            ));
            must_fail("sealed for application id 2", "app-id", vid, out, &cr)?;
        }
        // no associated data at all / version only
        {
            let mut out = vec![1u8];
            out.extend_from_slice(&it.nonce);
            out.extend_from_slice(&crate::engine::crypto::aead_seal(&key, &it.nonce, vid.as_bytes(), &payload));
            must_fail("sealed with the version id alone as associated data", "app-id", vid, out, &cr)?;
        }
        rep.extra_nontrivial.push(hash_of(&(it.version, it.len)));
    }
    // another secret / another salt
    if c.other_secret != c.secret {
        let other = Cryptor::new(&c.salt, &c.other_secret).map_err(|e| Failure::new("cryptor-new", format!("{e}")))?;
        for it in c.items.iter().take(2) {
            let vid = Uuid::from_u128(it.version);
            let sealed = cr.seal(vid, payload_of(it)).unwrap();
            crate::ensure!(
                other.unseal(vid, sealed).is_err(),
                "tamper-accepted:other-secret",
                "a value sealed under one secret opens under another"
            );
        }
        rep.class("other-secret");
    }
    if c.other_salt != c.salt {
        let other = Cryptor::new(&c.other_salt, &c.secret).map_err(|e| Failure::new("cryptor-new", format!("{e}")))?;
        for it in c.items.iter().take(2) {
            let vid = Uuid::from_u128(it.version);
            let sealed = cr.seal(vid, payload_of(it)).unwrap();
            crate::ensure!(
                other.unseal(vid, sealed).is_err(),
                "tamper-accepted:other-salt",
                "a value sealed under one salt opens under another"
            );
        }
        rep.class("other-salt");
    }
    // the same bytes split differently between salt and secret are a different (salt, secret)
    // pair: the key must be the documented derivation from exactly these two inputs
    if !c.secret.is_empty() && !c.items.is_empty() {
        let k = 1 + (c.items[0].fill as usize % c.secret.len());
        let mut salt2 = c.salt.clone();
        salt2.extend_from_slice(&c.secret[..k]);
        let secret2 = c.secret[k..].to_vec();
        let cr2 = Cryptor::new(&salt2, &secret2).map_err(|e| Failure::new("cryptor-new", format!("{e}")))?;
        let key2 = doc_derive_key(&secret2, &salt2);
        let it = &c.items[0];
        let vid = Uuid::from_u128(it.version);
        let payload = payload_of(it);
        let sealed2 = cr2.seal(vid, payload.clone()).map_err(|e| Failure::new("seal-error", format!("{e}")))?;
        let opened = doc_open(&key2, vid.as_bytes(), &sealed2).map_err(|e| {
            Failure::new(
                "not-the-documented-scheme",
                format!("with salt = S||X ({} bytes) and secret = T ({} bytes), derived in a process that had derived the key for salt S and secret X||T before, a sealed value does not open under the documented key derivation: {e}", salt2.len(), secret2.len()),
            )
        })?;
        crate::ensure!(opened == payload, "open-differs", "independent open yields different bytes");
        crate::ensure!(
            cr.unseal(vid, sealed2).is_err(),
            "tamper-accepted:other-salt",
            "a value sealed under (salt S||X, secret T) opens under (salt S, secret X||T)"
        );
        rep.class("salt-secret-boundary-shifted");
    }
    if nonces.len() >= 12 {
        for pos in 0..12 {
            let distinct: BTreeSet<u8> = nonces.iter().map(|n| n[pos]).collect();
            crate::ensure!(
                distinct.len() >= 2,
                "nonce-not-random",
                "nonce byte {pos} has the same value ({:?}) in all {} nonces of this case",
                distinct,
                nonces.len()
            );
        }
    }
    for r in regions {
        rep.class(match r {
            "format-byte" => "tampered:format-byte",
            "nonce" => "tampered:nonce",
            "ciphertext" => "tampered:ciphertext",
            _ => "tampered:tag",
        });
    }
    rep.class_if(c.secret.is_empty(), "empty-secret");
    rep.nontrivial = true;
    Ok(rep)
}

// ---------------------------------------------------------------------------------------------
// (c) what the backends actually store

#[derive(Clone, Debug, PartialEq, Eq, Hash, Serialize, Deserialize)]
pub struct StoredCase {
    /// 0 = object store, 1 = git (local-only)
    pub backend: u8,
    pub secret: Vec<u8>,
    pub commits: Vec<(u8, Vec<Intent>)>,
    pub snapshot: bool,
    pub tamper: u8,
}

pub fn stored_strategy() -> BoxedStrategy<StoredCase> {
    (
        0u8..3,
        proptest::collection::vec(any::<u8>(), 1..24),
        proptest::collection::vec((0u8..2, proptest::collection::vec(super::common::intent_strategy(3), 1..4)), 1..5),
        any::<bool>(),
        any::<u8>(),
    )
        .prop_map(|(backend, secret, commits, snapshot, tamper)| StoredCase {
            backend,
            secret,
            commits,
            snapshot,
            tamper,
        })
        .boxed()
}

const MARKER: &str = "MARKER-c13-task-content";

fn b64(s: &str) -> Result<Vec<u8>, String> {
    const T: &[u8; 64] = b"ABCDEFGHIJKLMNOPQRSTUVWXYZabcdefghijklmnopqrstuvwxyz0123456789+/";
    let mut out = vec![];
    let mut acc = 0u32;
    let mut bits = 0;
    for ch in s.bytes() {
        if ch == b'=' {
            break;
        }
        let v = T.iter().position(|t| *t == ch).ok_or_else(|| format!("bad base64 char {ch}"))? as u32;
        acc = (acc << 6) | v;
        bits += 6;
        if bits >= 8 {
            bits -= 8;
            out.push((acc >> bits) as u8);
            acc &= (1 << bits) - 1;
        }
    }
    Ok(out)
}

fn b64_encode(data: &[u8]) -> String {
    const T: &[u8; 64] = b"ABCDEFGHIJKLMNOPQRSTUVWXYZabcdefghijklmnopqrstuvwxyz0123456789+/";
    let mut out = String::new();
    for ch in data.chunks(3) {
        let n = (ch[0] as u32) << 16 | (*ch.get(1).unwrap_or(&0) as u32) << 8 | *ch.get(2).unwrap_or(&0) as u32;
        out.push(T[(n >> 18) as usize & 63] as char);
        out.push(T[(n >> 12) as usize & 63] as char);
        out.push(if ch.len() > 1 { T[(n >> 6) as usize & 63] as char } else { '=' });
        out.push(if ch.len() > 2 { T[n as usize & 63] as char } else { '=' });
    }
    out
}

fn contains(hay: &[u8], needle: &[u8]) -> bool {
    hay.windows(needle.len()).any(|w| w == needle)
}

fn simple(u: Uuid) -> String {
    u.as_simple().to_string()
}

/// Run the commits through two replicas and the backend; returns nothing, the caller inspects
/// the storage.
fn drive(
    servers: &mut [Box<dyn Server>; 2],
    commits: &[(u8, Vec<Intent>)],
    snapshot_via: Option<usize>,
) -> Result<(), Failure> {
    let mut reps = [Rep::mem(&pool()), Rep::mem(&pool())];
    let mut rz = [Realizer::new(0), Realizer::new(1)];
    for (r, intents) in commits {
        let r = *r as usize % 2;
        let mut local = reps[r].tasks();
        let mut ops = vec![];
        rz[r].realize(intents, &mut local, &mut ops);
        // every value carries the marker
        for op in ops.iter_mut() {
            if let taskchampion::Operation::Update { value: Some(v), property, .. } = op {
                *v = format!("{MARKER}:{v}");
                *property = format!("{property}{MARKER}");
            }
        }
        reps[r].commit(ops).map_err(|e| Failure::new("commit-error", format!("{e}")))?;
        reps[r]
            .sync(&mut servers[r], false)
            .map_err(|e| Failure::new("sync-error", format!("sync through the backend failed: {e}")))?;
    }
    if let Some(r) = snapshot_via {
        // a snapshot, stored the way a replica would
        let latest = block_on(async {
            let mut p = Uuid::nil();
            loop {
                match servers[r].get_child_version(p).await {
                    Ok(GetVersionResult::Version { version_id, .. }) => p = version_id,
                    _ => break,
                }
            }
            p
        });
        if !latest.is_nil() {
            let snap = super::c12::encode_snapshot(&reps[r].tasks());
            block_on(servers[r].add_snapshot(latest, snap))
                .map_err(|e| Failure::new("add-snapshot-error", format!("{e}")))?;
        }
    }
    for r in 0..2 {
        reps[r]
            .sync(&mut servers[r], false)
            .map_err(|e| Failure::new("sync-error", format!("final sync failed: {e}")))?;
    }
    Ok(())
}

pub fn check_stored(c: &StoredCase) -> CheckResult {
    let mut rep = CaseReport::default();
    let marker = MARKER.as_bytes();
    let mut versions_checked = 0;
    match c.backend {
        0 => {
            rep.class("object-store");
            let store = ObjectStore::new(2);
            let mk = |client: usize| -> Result<Box<dyn Server>, Failure> {
                let h = block_on(cloud_server_new(store.handle(client), c.secret.clone()))
                    .map_err(|e| Failure::new("backend-open", format!("{e}")))?;
                Ok(Box::new(h))
            };
            taskchampion::server::verif::set_draws(vec![], Some(255));
            // the two clients start on a brand-new store at the same time (interleaving of their
            // requests chosen by the case), so both take part in creating the salt
            let mut servers: [Box<dyn Server>; 2] = {
                use crate::engine::sched::{run_scheduled, Client};
                let clients: Vec<Client<'_, Result<Box<dyn Server>, Failure>>> = (0..2)
                    .map(|i| {
                        let h = store.handle(i);
                        h.set_gated(true);
                        let secret = c.secret.clone();
                        Box::pin(async move {
                            let r = cloud_server_new(h.clone(), secret).await;
                            h.set_gated(false);
                            r.map(|s| Box::new(s) as Box<dyn Server>).map_err(|e| Failure::new("backend-open", format!("{e}")))
                        }) as Client<'_, _>
                    })
                    .collect();
                let schedule: Vec<u8> = (0..8).map(|b| if c.tamper >> b & 1 == 1 { 255 } else { 0 }).collect();
                let mut out = run_scheduled(clients, &schedule).outputs.into_iter();
                [out.next().unwrap()?, out.next().unwrap()?]
            };
            drive(&mut servers, &c.commits, if c.snapshot { Some(0) } else { None })?;
            let objs = store.raw_list();
            let salt = objs
                .iter()
                .find(|(n, _, _)| n == "salt")
                .map(|(_, _, v)| v.clone())
                .ok_or_else(|| Failure::new("no-salt", "the object store holds no salt object".to_string()))?;
            crate::ensure!(salt.len() == 16, "salt-length", "stored salt has {} bytes", salt.len());
            let key = doc_derive_key(&c.secret, &salt);
            let mut version_objs = vec![];
            for (name, _, value) in &objs {
                crate::ensure!(!contains(value, marker) && !name.contains(MARKER), "plaintext-stored", "object {name} contains task content in the clear");
                if let Some(rest) = name.strip_prefix("v-") {
                    let child = Uuid::parse_str(&rest[33..]).map_err(|_| Failure::new("object-name", format!("bad version object name {name}")))?;
                    let plain = doc_open(&key, child.as_bytes(), value).map_err(|e| {
                        Failure::new("stored-not-documented-form", format!("object {name} is not the documented sealed form bound to its own version id: {e}"))
                    })?;
                    parse_version(&plain).map_err(|e| Failure::new("stored-version-unreadable", e))?;
                    versions_checked += 1;
                    version_objs.push((name.clone(), child));
                } else if let Some(v) = name.strip_prefix("s-") {
                    let vid = Uuid::parse_str(v).map_err(|_| Failure::new("object-name", format!("bad snapshot object name {name}")))?;
                    doc_open(&key, vid.as_bytes(), value).map_err(|e| {
                        Failure::new("stored-not-documented-form", format!("snapshot object {name} is not the documented sealed form bound to its version id: {e}"))
                    })?;
                    rep.class("snapshot-object-checked");
                }
            }
            // tamper with the stored snapshot: it must be refused, not ignored or returned
            if let Some((name, _, _)) = objs.iter().find(|(n, _, _)| n.starts_with("s-")) {
                let (t, orig) = store.raw_get(name).unwrap();
                let mut variants: Vec<(&str, Vec<u8>)> = vec![];
                let mut v = orig.clone();
                let pos = (c.tamper as usize * 11) % v.len();
                v[pos] ^= 0x20;
                variants.push(("a flipped bit", v));
                variants.push(("truncation", orig[..orig.len() - 1 - (c.tamper as usize % 16).min(orig.len() - 1)].to_vec()));
                // (a version object is bound to its own version id exactly like the snapshot of that
                // version, so only the content of ANOTHER version is foreign to this snapshot)
                let snap_vid = Uuid::parse_str(&name[2..]).unwrap_or(Uuid::nil());
                if let Some((vn, _)) = version_objs.iter().find(|(_, child)| *child != snap_vid) {
                    variants.push(("replacement by another version's object content", store.raw_get(vn).unwrap().1));
                }
                for (what, bytes) in variants {
                    store.raw_put(name, t, bytes);
                    let mut fresh = mk(8)?;
                    let r = block_on(fresh.get_snapshot());
                    crate::ensure!(
                        r.is_err(),
                        "stored-snapshot-tamper-accepted",
                        "after {what} of the stored snapshot {name} get_snapshot returned {} instead of an error",
                        match &r { Ok(None) => "Ok(None)".to_string(), Ok(Some((v, d))) => format!("Ok(Some(({v}, {} bytes)))", d.len()), Err(_) => unreachable!() }
                    );
                }
                store.raw_put(name, t, orig);
                rep.class("tampered-snapshot-rejected");
            }
            // tamper with what is stored
            if !version_objs.is_empty() {
                let (name, _) = &version_objs[c.tamper as usize % version_objs.len()];
                let parent = Uuid::parse_str(&name[2..34]).unwrap();
                let (t, mut v) = store.raw_get(name).unwrap();
                let orig = v.clone();
                let pos = (c.tamper as usize * 7) % v.len();
                v[pos] ^= 0x40;
                store.raw_put(name, t, v);
                let mut fresh = mk(7)?;
                let r = block_on(fresh.get_child_version(parent));
                crate::ensure!(
                    r.is_err(),
                    "stored-tamper-accepted",
                    "after flipping a bit of {name} the server returned {r:?} instead of an error"
                );
                store.raw_put(name, t, orig);
                if version_objs.len() >= 2 {
                    // re-label: put another version's bytes under this name
                    let (other, _) = &version_objs[(c.tamper as usize + 1) % version_objs.len()];
                    if other != name {
                        let (_, ov) = store.raw_get(other).unwrap();
                        let (t, keep) = store.raw_get(name).unwrap();
                        store.raw_put(name, t, ov);
                        let r = block_on(fresh.get_child_version(parent));
                        crate::ensure!(
                            r.is_err(),
                            "stored-relabel-accepted",
                            "after replacing the content of {name} by that of {other} the server returned data instead of an error"
                        );
                        store.raw_put(name, t, keep);
                        rep.class("re-labelled-object-rejected");
                    }
                }
            }
        }
        2 => {
            rep.class("http");
            use crate::engine::httpsrv::{Blocking, HttpServer, Tamper, HS_CT, SNAP_CT};
            let http = HttpServer::start().map_err(|e| Failure::new("infra", format!("http server: {e}")))?;
            let client_id = Uuid::from_u128(0x1d_c13);
            if c.snapshot {
                http.state.lock().unwrap().urgency = 2;
            }
            let mk = || -> Result<Box<dyn Server>, Failure> {
                Ok(Box::new(
                    Blocking::new(ServerConfig::Remote {
                        url: http.url.clone(),
                        client_id,
                        encryption_secret: c.secret.clone(),
                    })
                    .map_err(|e| Failure::new("backend-open", format!("{e}")))?,
                ))
            };
            let mut servers = [mk()?, mk()?];
            drive(&mut servers, &c.commits, None)?;
            // http.md: the salt is the 16-byte client id
            let key = doc_derive_key(&c.secret, client_id.as_bytes());
            let recorded = http.state.lock().unwrap().recorded.clone();
            for r in &recorded {
                crate::ensure!(!contains(&r.body, marker), "plaintext-stored", "an HTTP {} request body contains task content in the clear", r.kind);
                match r.kind {
                    "add-version" => {
                        crate::ensure!(r.content_type == HS_CT, "http-protocol", "add-version content type {:?}", r.content_type);
                        // versions are bound to the PARENT version id
                        let plain = doc_open(&key, r.id_in_url.as_bytes(), &r.body).map_err(|e| {
                            Failure::new("stored-not-documented-form", format!("an add-version body is not the documented sealed form (salt = client id, bound to the parent version id): {e}"))
                        })?;
                        parse_version(&plain).map_err(|e| Failure::new("stored-version-unreadable", e))?;
                        versions_checked += 1;
                    }
                    _ => {
                        crate::ensure!(r.content_type == SNAP_CT, "http-protocol", "add-snapshot content type {:?}", r.content_type);
                        doc_open(&key, r.id_in_url.as_bytes(), &r.body).map_err(|e| {
                            Failure::new("stored-not-documented-form", format!("an add-snapshot body is not the documented sealed form bound to its version id: {e}"))
                        })?;
                        rep.class("snapshot-object-checked");
                    }
                }
            }
            let errs = http.state.lock().unwrap().protocol_errors.clone();
            crate::ensure!(errs.is_empty(), "http-protocol", "the client violated http.md: {errs:?}");
            // tampered replies must be rejected
            let nver = http.state.lock().unwrap().chains.get(&client_id).map(|c| c.versions.len()).unwrap_or(0);
            if nver >= 1 {
                let tampers = [Tamper::FlipBit(c.tamper as usize * 13), Tamper::WrongParentHeader, Tamper::SwapBody];
                for t in tampers {
                    if t == Tamper::SwapBody && nver < 2 {
                        continue;
                    }
                    http.state.lock().unwrap().tamper = t.clone();
                    let mut fresh = mk()?;
                    let r = block_on(fresh.get_child_version(Uuid::nil()));
                    crate::ensure!(
                        r.is_err(),
                        "stored-tamper-accepted",
                        "with the reply tampered ({t:?}) get_child_version returned {r:?} instead of an error"
                    );
                    rep.class("tampered-http-reply-rejected");
                }
                let has_snapshot = http.state.lock().unwrap().chains.get(&client_id).map(|c| c.snapshot.is_some()).unwrap_or(false);
                if has_snapshot {
                    for t in [Tamper::FlipBit(c.tamper as usize * 13), Tamper::WrongParentHeader, Tamper::SwapBody] {
                        http.state.lock().unwrap().tamper = t.clone();
                        let mut fresh = mk()?;
                        let r = block_on(fresh.get_snapshot());
                        crate::ensure!(
                            r.is_err(),
                            "stored-snapshot-tamper-accepted",
                            "with the snapshot reply tampered ({t:?}: flipped bit / version id header of another version / a version's body) get_snapshot returned {} instead of an error",
                            match &r { Ok(None) => "Ok(None)".to_string(), Ok(Some((v, d))) => format!("Ok(Some(({v}, {} bytes)))", d.len()), Err(_) => unreachable!() }
                        );
                    }
                    rep.class("tampered-snapshot-rejected");
                }
                http.state.lock().unwrap().tamper = Tamper::None;
            }
        }
        _ => {
            rep.class("git-local-only");
            let dir = tempfile::TempDir::new().map_err(|e| Failure::new("infra", format!("{e}")))?;
            let path = dir.path().join("repo");
            let mk = || -> Result<Box<dyn Server>, Failure> {
                block_on(
                    ServerConfig::Git {
                        local_path: path.clone(),
                        branch: "main".into(),
                        remote: None,
                        local_only: true,
                        encryption_secret: c.secret.clone(),
                        git_path: None,
                    }
                    .into_server(),
                )
                .map_err(|e| Failure::new("backend-open", format!("git backend: {e}")))
            };
            // one handle at a time on one working tree: both replicas use the same handle
            let h = mk()?;
            let mut reps = [Rep::mem(&pool()), Rep::mem(&pool())];
            let mut rz = [Realizer::new(0), Realizer::new(1)];
            let mut h = h;
            for (r, intents) in c.commits.iter().take(3) {
                let r = *r as usize % 2;
                let mut local = reps[r].tasks();
                let mut ops = vec![];
                rz[r].realize(intents, &mut local, &mut ops);
                for op in ops.iter_mut() {
                    if let taskchampion::Operation::Update { value: Some(v), .. } = op {
                        *v = format!("{MARKER}:{v}");
                    }
                }
                reps[r].commit(ops).map_err(|e| Failure::new("commit-error", format!("{e}")))?;
                reps[r].sync(&mut h, false).map_err(|e| Failure::new("sync-error", format!("sync through git failed: {e}")))?;
            }
            if c.snapshot {
                let latest = block_on(async {
                    let mut p = Uuid::nil();
                    while let Ok(GetVersionResult::Version { version_id, .. }) = h.get_child_version(p).await {
                        p = version_id;
                    }
                    p
                });
                if !latest.is_nil() {
                    block_on(h.add_snapshot(latest, super::c12::encode_snapshot(&reps[0].tasks())))
                        .map_err(|e| Failure::new("add-snapshot-error", format!("{e}")))?;
                }
            }
            drop(h);
            let meta: serde_json::Value = serde_json::from_str(
                &std::fs::read_to_string(path.join("meta")).map_err(|e| Failure::new("git-meta", format!("{e}")))?,
            )
            .map_err(|e| Failure::new("git-meta", format!("{e}")))?;
            let salt = b64(meta["salt"].as_str().unwrap_or("")).map_err(|e| Failure::new("git-meta", e))?;
            crate::ensure!(salt.len() == 16, "salt-length", "stored salt has {} bytes", salt.len());
            let key = doc_derive_key(&c.secret, &salt);
            let mut files = vec![];
            for ent in std::fs::read_dir(&path).unwrap().flatten() {
                let name = ent.file_name().to_string_lossy().to_string();
                if name == ".git" {
                    continue;
                }
                let bytes = std::fs::read(ent.path()).unwrap();
                crate::ensure!(!contains(&bytes, marker), "plaintext-stored", "file {name} contains task content in the clear");
                if let Some(rest) = name.strip_prefix("v-") {
                    let (_, child) = rest.split_once('-').unwrap();
                    let child = Uuid::parse_str(child).map_err(|_| Failure::new("object-name", format!("bad version file name {name}")))?;
                    let plain = doc_open(&key, child.as_bytes(), &bytes).map_err(|e| {
                        Failure::new("stored-not-documented-form", format!("file {name} is not the documented sealed form bound to its own version id: {e}"))
                    })?;
                    parse_version(&plain).map_err(|e| Failure::new("stored-version-unreadable", e))?;
                    versions_checked += 1;
                    files.push(name.clone());
                } else if name == "snapshot" {
                    let s: serde_json::Value = serde_json::from_slice(&bytes).map_err(|e| Failure::new("git-snapshot", format!("{e}")))?;
                    let vid = Uuid::parse_str(s["version_id"].as_str().unwrap_or("")).map_err(|_| Failure::new("git-snapshot", "bad version id".to_string()))?;
                    let payload = b64(s["payload"].as_str().unwrap_or("")).map_err(|e| Failure::new("git-snapshot", e))?;
                    doc_open(&key, vid.as_bytes(), &payload).map_err(|e| {
                        Failure::new("stored-not-documented-form", format!("the snapshot file is not the documented sealed form bound to its version id: {e}"))
                    })?;
                    rep.class("snapshot-object-checked");
                }
            }
            // also nothing in the git object database in the clear (loose objects are zlib
            // streams; check the working tree history via `git log -p` is not needed: every
            // committed blob is one of the files checked above)
            let commit_all = |msg: &str| -> Result<(), Failure> {
                for args in [vec!["add", "-A"], vec!["-c", "user.email=t@local", "-c", "user.name=t", "commit", "-q", "-m", msg]] {
                    let out = std::process::Command::new("git").args(&args).current_dir(&path).output().map_err(|e| Failure::new("infra", format!("git: {e}")))?;
                    crate::ensure!(out.status.success(), "infra", "git {args:?} failed: {}", String::from_utf8_lossy(&out.stderr));
                }
                Ok(())
            };
            let snap_path = path.join("snapshot");
            if let Ok(orig) = std::fs::read(&snap_path) {
                let sj: serde_json::Value = serde_json::from_slice(&orig).map_err(|e| Failure::new("git-snapshot", format!("{e}")))?;
                let payload = b64(sj["payload"].as_str().unwrap_or("")).map_err(|e| Failure::new("git-snapshot", e))?;
                let mut variants: Vec<(&str, serde_json::Value)> = vec![];
                let mut p2 = payload.clone();
                let pos = (c.tamper as usize * 11) % p2.len();
                p2[pos] ^= 0x20;
                let mut j = sj.clone();
                j["payload"] = b64_encode(&p2).into();
                variants.push(("a flipped bit in the payload", j));
                let mut j = sj.clone();
                j["payload"] = b64_encode(&payload[..payload.len() - 1]).into();
                variants.push(("truncation of the payload", j));
                let mut j = sj.clone();
                let vid = Uuid::parse_str(sj["version_id"].as_str().unwrap_or("")).unwrap_or(Uuid::nil());
                j["version_id"] = Uuid::from_u128(vid.as_u128() ^ 1).to_string().into();
                variants.push(("re-labelling with another version id", j));
                for (what, j) in variants {
                    std::fs::write(&snap_path, serde_json::to_vec(&j).unwrap()).unwrap();
                    commit_all("tampered snapshot")?;
                    let mut fresh = mk()?;
                    let r = block_on(fresh.get_snapshot());
                    crate::ensure!(
                        r.is_err(),
                        "stored-snapshot-tamper-accepted",
                        "after {what} of the committed snapshot file get_snapshot returned {} instead of an error",
                        match &r { Ok(None) => "Ok(None)".to_string(), Ok(Some((v, d))) => format!("Ok(Some(({v}, {} bytes)))", d.len()), Err(_) => unreachable!() }
                    );
                }
                std::fs::write(&snap_path, &orig).unwrap();
                commit_all("snapshot restored")?;
                rep.class("tampered-snapshot-rejected");
            }
            if !files.is_empty() {
                files.sort();
                let name = &files[c.tamper as usize % files.len()];
                let parent = Uuid::parse_str(name[2..].split_once('-').unwrap().0).unwrap();
                let p = path.join(name);
                let mut v = std::fs::read(&p).unwrap();
                let pos = (c.tamper as usize * 7) % v.len();
                v[pos] ^= 0x40;
                std::fs::write(&p, &v).unwrap();
                // the stored form is what is committed: commit the modification (a checkout
                // that merely differs from HEAD is restored when the repository is opened)
                for args in [vec!["add", name.as_str()], vec!["-c", "user.email=t@local", "-c", "user.name=t", "commit", "-q", "-m", "tampered"]] {
                    let out = std::process::Command::new("git").args(&args).current_dir(&path).output().map_err(|e| Failure::new("infra", format!("git: {e}")))?;
                    crate::ensure!(out.status.success(), "infra", "git {args:?} failed: {}", String::from_utf8_lossy(&out.stderr));
                }
                let mut fresh = mk()?;
                let r = block_on(fresh.get_child_version(parent));
                crate::ensure!(
                    r.is_err(),
                    "stored-tamper-accepted",
                    "after flipping a bit of {name} the git server returned {r:?} instead of an error"
                );
            }
        }
    }
    let _ = (task_uuid(0), simple(Uuid::nil()));
    rep.nontrivial = versions_checked >= 1;
    Ok(rep)
}

pub fn run(e: &Engine) {
    crate::engine::crypto::self_test().unwrap_or_else(|err| {
        println!("INCONCLUSIVE property=C13 independent crypto self-test failed: {err}");
        std::process::exit(2)
    });
    e.assume("the oracle is an independent implementation of PBKDF2-HMAC-SHA256 / ChaCha20-Poly1305 (RFC 8439) written in the harness and self-tested against the RFC vectors at start-up");
    e.set_shrink_iters(24);
    e.campaign(
        "seal-unseal-tamper",
        "per case one (secret 0-63 bytes, salt) key derivation and 8 sealed values (version id, payload 0 B-70 kB, foreign nonce): differential against the independent implementation in both directions, nonce uniqueness, then EVERY byte position x {xor 1, 0x80, 0xff}, EVERY truncation, extensions, every single-bit change of the version id, foreign application id, other secret, other salt must all be rejected (positions sampled for payloads > 430 bytes); evaluations count tamper attempts",
        e.tier.pick(24, 400),
        || key_strategy(8),
        |c| serde_json::json!({"secret_len": c.secret.len(), "salt_len": c.salt.len(), "items": c.items.iter().map(|i| format!("version {:032x}, {} bytes", i.version, i.len)).collect::<Vec<_>>()}),
        check_key,
    );
    if !e.failed() && e.replay.is_none() {
        let all = NONCES.lock().unwrap().clone();
        if let Err(f) = check_nonce_positions(&all) {
            e.record_violation("seal-unseal-tamper", f, &serde_json::json!({"nonces_examined": all.len()}));
        }
    }
    e.set_worker_cap(6);
    e.campaign(
        "stored-form",
        "two replicas with marker strings in every value sync through the object-store server (key derived from the stored random salt), the git server, or the HTTP client against the harness's protocol server (salt = client id, versions bound to the parent id, snapshots to their own); every stored version/snapshot must open with the independent implementation bound to its own version id, no marker may occur in anything stored, and a flipped bit, truncation, re-labelling or swapped object (versions and snapshots) must make the Server call fail; non-trivial = at least one stored version checked",
        e.tier.pick(36, 600),
        stored_strategy,
        |c| serde_json::to_value(c).unwrap(),
        check_stored,
    );
    e.set_worker_cap(u64::MAX);
    e.fuzz_corpus("c13_unseal");
    e.fuzz_campaign("c13_unseal", 1000000);
}
