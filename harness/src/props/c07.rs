//! C07 — undo restores the exact prior state and withdraws the changes from sync.

use super::common::World;
use crate::engine::exec::block_on;
use crate::engine::model::{parse_version, task_uuid, Model, MOp};
use crate::engine::{CaseReport, CheckResult, Engine, Failure};
use proptest::prelude::*;
use serde::{Deserialize, Serialize};
use std::collections::BTreeSet;
use taskchampion::{Operation, Operations, TaskData};

#[derive(Clone, Debug, PartialEq, Eq, Hash, Serialize, Deserialize)]
pub enum Edit {
    /// create the task if missing, then set a property to a fresh unique value
    Set { t: u8, p: u8 },
    /// remove a property (if the task exists)
    Remove { t: u8, p: u8 },
    /// delete the task with everything in it (if it exists)
    Delete { t: u8 },
    /// create the task (if missing)
    Create { t: u8 },
}

#[derive(Clone, Debug, PartialEq, Eq, Hash, Serialize, Deserialize)]
pub enum Act {
    /// one commit; `undo_point`: the batch starts with an UndoPoint, as `Replica` does for the
    /// first change of a session
    Commit { undo_point: bool, edits: Vec<Edit> },
    /// get_undo_operations, then commit_reversed_operations
    Undo,
    /// fetch the undo list, commit something else, then submit the stale list
    StaleUndo { edits: Vec<Edit> },
    /// fetch the undo list, sync, then submit it
    UndoAfterSync,
    Sync,
}

#[derive(Clone, Debug, PartialEq, Eq, Hash, Serialize, Deserialize)]
pub struct Case {
    pub sqlite: bool,
    pub acts: Vec<Act>,
}

const PROPS: [&str; 3] = ["description", "project", "status"];

fn edit_strategy() -> impl Strategy<Value = Edit> {
    prop_oneof![
        6 => (0u8..3, 0u8..3).prop_map(|(t, p)| Edit::Set { t, p }),
        2 => (0u8..3, 0u8..3).prop_map(|(t, p)| Edit::Remove { t, p }),
        2 => (0u8..3).prop_map(|t| Edit::Delete { t }),
        1 => (0u8..3).prop_map(|t| Edit::Create { t }),
    ]
}

pub fn strategy(sqlite_weight: u32) -> BoxedStrategy<Case> {
    let edits = || proptest::collection::vec(edit_strategy(), 1..5);
    (
        prop_oneof![4 => Just(false), sqlite_weight => Just(true)],
        proptest::collection::vec(
            prop_oneof![
                8 => (prop_oneof![3 => Just(true), 1 => Just(false)], edits()).prop_map(|(undo_point, edits)| Act::Commit { undo_point, edits }),
                5 => Just(Act::Undo),
                1 => edits().prop_map(|edits| Act::StaleUndo { edits }),
                1 => Just(Act::UndoAfterSync),
                2 => Just(Act::Sync),
            ],
            1..14,
        ),
    )
        .prop_map(|(sqlite, acts)| Case { sqlite, acts })
        .boxed()
}

struct Ctx {
    w: World,
    /// unsynchronized operations with the state before each
    log: Vec<(Operation, Model)>,
    state: Model,
    counter: u32,
    undone_values: BTreeSet<String>,
}

impl Ctx {
    /// Record the edits through the real TaskData API against the replica's current state.
    fn build(&mut self, undo_point: bool, edits: &[Edit]) -> Result<Operations, Failure> {
        let mut ops = Operations::new();
        if undo_point {
            ops.push(Operation::UndoPoint);
        }
        let mut held: std::collections::BTreeMap<u8, Option<TaskData>> = Default::default();
        for e in edits {
            let t = match e {
                Edit::Set { t, .. } | Edit::Remove { t, .. } | Edit::Delete { t } | Edit::Create { t } => *t,
            };
            let uuid = task_uuid(t as usize);
            if !held.contains_key(&t) {
                let td = block_on(self.w.reps[0].replica.get_task_data(uuid))
                    .map_err(|e| Failure::new("api-error", format!("get_task_data: {e}")))?;
                held.insert(t, td);
            }
            let slot = held.get_mut(&t).unwrap();
            match e {
                Edit::Create { .. } => {
                    if slot.is_none() {
                        *slot = Some(TaskData::create(uuid, &mut ops));
                    }
                }
                Edit::Set { p, .. } => {
                    if slot.is_none() {
                        *slot = Some(TaskData::create(uuid, &mut ops));
                    }
                    self.counter += 1;
                    slot.as_mut().unwrap().update(
                        PROPS[*p as usize % 3],
                        Some(format!("v{}", self.counter)),
                        &mut ops,
                    );
                }
                Edit::Remove { p, .. } => {
                    if let Some(td) = slot.as_mut() {
                        td.update(PROPS[*p as usize % 3], None, &mut ops);
                    }
                }
                Edit::Delete { .. } => {
                    if let Some(td) = slot.as_mut() {
                        td.delete(&mut ops);
                        *slot = None;
                    }
                }
            }
        }
        Ok(ops)
    }

    fn commit(&mut self, ops: Operations) -> Result<(), Failure> {
        if ops.is_empty() {
            return Ok(());
        }
        self.w.reps[0]
            .commit(ops.clone())
            .map_err(|e| Failure::new("commit-error", format!("commit failed: {e}")))?;
        for op in ops {
            let before = self.state.clone();
            self.state.apply_operation(&op);
            self.log.push((op, before));
        }
        Ok(())
    }

    fn verify(&mut self, when: &str) -> Result<(), Failure> {
        let got = self.w.reps[0].tasks();
        crate::ensure!(
            got == self.state,
            "state-mismatch",
            "{when}: the replica holds\n  {}\nexpected\n  {}",
            got.render(),
            self.state.render()
        );
        let d = self.w.reps[0].dump();
        let want: Vec<Operation> = self.log.iter().map(|(o, _)| o.clone()).collect();
        crate::ensure!(
            d.unsynced == want,
            "unsynced-mismatch",
            "{when}: the unsynchronized operations are {} long, expected {}:\n got {:?}\nwant {:?}",
            d.unsynced.len(),
            want.len(),
            d.unsynced,
            want
        );
        let real = want.iter().filter(|o| !o.is_undo_point()).count();
        let nl = block_on(self.w.reps[0].replica.num_local_operations()).unwrap();
        let nu = block_on(self.w.reps[0].replica.num_undo_points()).unwrap();
        crate::ensure!(
            nl == real && nu == want.len() - real,
            "op-counts",
            "{when}: num_local_operations={nl}, num_undo_points={nu}; expected {real} and {}",
            want.len() - real
        );
        Ok(())
    }

    fn expected_undo_list(&self) -> (usize, Vec<Operation>) {
        let i = self
            .log
            .iter()
            .rposition(|(o, _)| o.is_undo_point())
            .unwrap_or(0);
        (i, self.log[i..].iter().map(|(o, _)| o.clone()).collect())
    }
}

pub fn check_case(c: &Case) -> CheckResult {
    let mut rep = CaseReport::default();
    let mut w = World::new(1);
    if c.sqlite {
        w.make_sqlite(0)?;
        rep.class("sqlite");
    }
    let mut cx = Ctx {
        w,
        log: vec![],
        state: Model::new(),
        counter: 0,
        undone_values: BTreeSet::new(),
    };
    let mut nontrivial = false;
    let mut last_was_undo = false;
    let mut synced_once = false;
    for (ai, a) in c.acts.iter().enumerate() {
        let when = format!("action {ai} ({a:?})");
        match a {
            Act::Commit { undo_point, edits } => {
                let ops = cx.build(*undo_point, edits)?;
                cx.commit(ops)?;
                cx.verify(&when)?;
                last_was_undo = false;
            }
            Act::Sync => {
                cx.w.sync(0)
                    .map_err(|e| Failure::new("sync-error", format!("{when}: {e}")))?;
                cx.log.clear();
                cx.verify(&when)?;
                cx.w.check_replica_invariant(0, &when)?;
                synced_once = true;
                last_was_undo = false;
            }
            Act::Undo => {
                let (i, want_list) = cx.expected_undo_list();
                let got_list = block_on(cx.w.reps[0].replica.get_undo_operations())
                    .map_err(|e| Failure::new("api-error", format!("get_undo_operations: {e}")))?;
                crate::ensure!(
                    got_list == want_list,
                    "undo-list",
                    "{when}: get_undo_operations returned\n  {got_list:?}\nexpected the operations back to and including the last undo point (or since the last sync):\n  {want_list:?}"
                );
                let has_real = want_list.iter().any(|o| !o.is_undo_point());
                let res = block_on(cx.w.reps[0].replica.commit_reversed_operations(got_list.clone()))
                    .map_err(|e| Failure::new("undo-error", format!("{when}: commit_reversed_operations failed: {e}")))?;
                if want_list.is_empty() {
                    crate::ensure!(!res, "undo-of-nothing", "{when}: undo of an empty list reported success");
                    cx.verify(&when)?;
                } else if !has_real {
                    // a lone undo point: only "state unchanged" is required
                    let got = cx.w.reps[0].tasks();
                    crate::ensure!(got == cx.state, "state-mismatch", "{when}: undoing a lone undo point changed tasks");
                    // the supplied operations are the most recent unsynchronized ones, so they
                    // are removed (whatever the call returns); otherwise repeated undo could
                    // never get past an empty segment
                    cx.log.truncate(i);
                    cx.verify(&when).map_err(|mut f| {
                        f.signature = format!("lone-undo-point:{}", f.signature);
                        f
                    })?;
                    rep.class("lone-undo-point");
                } else {
                    crate::ensure!(
                        res,
                        "undo-refused",
                        "{when}: commit_reversed_operations returned false for the most recent unsynchronized operations"
                    );
                    // interesting content?
                    let has_delete_populated = want_list.iter().any(|o| matches!(o, Operation::Delete { old_task, .. } if !old_task.is_empty()));
                    let has_removal = want_list.iter().any(|o| matches!(o, Operation::Update { value: None, old_value: Some(_), .. }));
                    if has_delete_populated {
                        rep.class("undid-delete-of-populated-task");
                    }
                    if has_removal {
                        rep.class("undid-property-removal");
                    }
                    if last_was_undo {
                        rep.class("second-level-undo");
                    }
                    if synced_once {
                        rep.class("undo-after-an-earlier-sync");
                    }
                    if has_delete_populated || has_removal || last_was_undo || synced_once {
                        nontrivial = true;
                    }
                    for o in &want_list {
                        if let Operation::Update { value: Some(v), .. } = o {
                            cx.undone_values.insert(v.clone());
                        }
                    }
                    cx.state = cx.log[i].1.clone();
                    cx.log.truncate(i);
                    cx.verify(&when)?;
                    last_was_undo = true;
                }
            }
            Act::StaleUndo { edits } => {
                let stale = block_on(cx.w.reps[0].replica.get_undo_operations())
                    .map_err(|e| Failure::new("api-error", format!("get_undo_operations: {e}")))?;
                let ops = cx.build(false, edits)?;
                if ops.is_empty() || stale.is_empty() {
                    continue;
                }
                cx.commit(ops)?;
                // the later commit may end with operations identical to the fetched list (e.g.
                // it re-creates the same task): then the list is not stale at all
                let tail_equal = {
                    let log: Vec<&Operation> = cx.log.iter().map(|(o, _)| o).collect();
                    log.len() >= stale.len() && log[log.len() - stale.len()..].iter().zip(stale.iter()).all(|(a, b)| *a == b)
                };
                if tail_equal {
                    rep.class("fetched-list-equals-the-new-tail (skipped)");
                    continue;
                }
                let res = block_on(cx.w.reps[0].replica.commit_reversed_operations(stale))
                    .map_err(|e| Failure::new("undo-error", format!("{when}: {e}")))?;
                crate::ensure!(
                    !res,
                    "stale-undo-accepted",
                    "{when}: an undo list fetched before a later commit was accepted"
                );
                cx.verify(&when)?;
                rep.class("stale-undo-refused");
                last_was_undo = false;
            }
            Act::UndoAfterSync => {
                let stale = block_on(cx.w.reps[0].replica.get_undo_operations())
                    .map_err(|e| Failure::new("api-error", format!("get_undo_operations: {e}")))?;
                if stale.is_empty() {
                    continue;
                }
                cx.w.sync(0)
                    .map_err(|e| Failure::new("sync-error", format!("{when}: {e}")))?;
                cx.log.clear();
                synced_once = true;
                let res = block_on(cx.w.reps[0].replica.commit_reversed_operations(stale))
                    .map_err(|e| Failure::new("undo-error", format!("{when}: {e}")))?;
                crate::ensure!(
                    !res,
                    "undo-after-sync-accepted",
                    "{when}: changes that had been synchronized were undone"
                );
                cx.verify(&when)?;
                let fresh = block_on(cx.w.reps[0].replica.get_undo_operations()).unwrap();
                crate::ensure!(
                    fresh.is_empty(),
                    "undo-after-sync-offered",
                    "{when}: after a sync get_undo_operations still offers {} operations",
                    fresh.len()
                );
                rep.class("undo-after-sync-refused");
                last_was_undo = false;
            }
        }
    }
    // undone operations never reach the server
    cx.w.sync(0)
        .map_err(|e| Failure::new("sync-error", format!("final sync: {e}")))?;
    cx.w.check_replica_invariant(0, "final sync")?;
    cx.w.check_converged()?;
    {
        let st = cx.w.server.state.borrow();
        for v in &st.versions {
            for op in parse_version(&v.bytes).map_err(|e| Failure::new("bad-version", e))? {
                if let MOp::Update(_, p, Some(val), _) = &op {
                    crate::ensure!(
                        !cx.undone_values.contains(val),
                        "undone-op-sent",
                        "the undone update {p}={val} was sent to the server"
                    );
                }
            }
        }
    }
    rep.nontrivial = nontrivial;
    Ok(rep)
}

pub fn run(e: &Engine) {
    e.assume("operation sequences are valid and recorded through Replica::get_task_data / TaskData::{create,update,delete}");
    e.assume("for a segment consisting of a lone undo point the return value is not asserted (the code reports false), but the marker must be removed so that repeated undo makes progress");
    e.campaign(
        "undo-histories",
        "1-13 actions from commit (with/without leading undo point; sets with unique values, removals, deletes of populated tasks, creates), undo, stale undo, undo after sync, sync; on both storages; model = operation log with the state before each operation; non-trivial = an undone segment contained a delete of a populated task or a property removal, or the undo was second-level or followed a sync",
        e.tier.pick(60_000, 1_500_000),
        || strategy(1),
        |c| serde_json::to_value(c).unwrap(),
        check_case,
    );
}
