//! C17 — concurrent handles on one SQLite replica serialise without loss.
//!
//! The harness does not own SQLite's lock schedule: this is stress exploration with a strict
//! audit.  2-8 workers (threads, or child processes) each open their own handle on one directory
//! and run generated scripts; a storage wrapper sleeps inside transactions to force overlap.

use super::common::pool;
use crate::engine::exec::block_on;
use crate::engine::model::{ts, Model};
use crate::engine::obs::{dump_storage, Dump};
use crate::engine::rep::{open_sqlite, Rep};
use crate::engine::{hash_of, Engine, Failure};
use proptest::prelude::*;
use serde::{Deserialize, Serialize};
use std::collections::{BTreeMap, BTreeSet};
use std::path::Path;
use std::time::Instant;
use taskchampion::storage::Storage;
use taskchampion::{Operation, Uuid};

#[derive(Clone, Debug, PartialEq, Eq, Hash, Serialize, Deserialize)]
pub enum WAct {
    /// create `n` new tasks (unique to this worker) and tag them; optionally also update the
    /// shared task
    Commit { n: u8, shared: bool, pending: bool },
    /// flip the status of a task shared by all workers between completed and pending (so that
    /// several handles make the same task pending at the same time)
    Toggle,
    Undo,
    Rebuild(bool),
    Read,
    /// read the shared task's property, then commit an update that sets it to the value just
    /// read (old value == new value from this handle's point of view; another handle may have
    /// changed it in between, and the recorded operation must take effect all the same)
    Reassert,
    /// a separate read-only handle reads the operations, the tasks and the operations again in
    /// ONE storage transaction: the two reads must agree and the tasks must be the replay of
    /// the operations (storage.md: serializable isolation)
    RoRead,
}

#[derive(Clone, Debug, PartialEq, Eq, Hash, Serialize, Deserialize)]
pub struct Workload {
    pub scripts: Vec<Vec<WAct>>,
    /// microseconds slept inside every storage call
    pub delay_us: u64,
    /// scripts with undo do not touch the shared task (a stale read of its old value by the
    /// caller would make the reversal restore a stale value; that is the caller's race)
    pub with_undo: bool,
    pub processes: bool,
}

#[derive(Clone, Debug, Serialize, Deserialize)]
pub enum LogEntry {
    Commit { ops: Vec<Operation>, ok: bool, start_us: u64, end_us: u64, err: Option<String> },
    Undo { ops: Vec<Operation>, result: Option<bool>, err: Option<String> },
    Other { what: String, ok: bool },
}

pub fn strategy(processes: bool) -> BoxedStrategy<Workload> {
    (2usize..=8, any::<bool>(), prop_oneof![Just(0u64), Just(50u64), Just(300u64), Just(1000u64)])
        .prop_flat_map(move |(workers, with_undo, delay_us)| {
            let act = if with_undo {
                prop_oneof![
                    6 => (1u8..4, any::<bool>()).prop_map(|(n, pending)| WAct::Commit { n, shared: false, pending }),
                    3 => Just(WAct::Undo),
                    1 => any::<bool>().prop_map(WAct::Rebuild),
                    1 => Just(WAct::Read),
                    2 => Just(WAct::RoRead),
                ]
                .boxed()
            } else {
                prop_oneof![
                    6 => (1u8..4, any::<bool>(), any::<bool>()).prop_map(|(n, shared, pending)| WAct::Commit { n, shared, pending }),
                    3 => Just(WAct::Toggle),
                    1 => any::<bool>().prop_map(WAct::Rebuild),
                    2 => Just(WAct::Read),
                    2 => Just(WAct::Reassert),
                    2 => Just(WAct::RoRead),
                ]
                .boxed()
            };
            proptest::collection::vec(proptest::collection::vec(act, 2..8), workers).prop_map(move |scripts| Workload {
                scripts,
                delay_us,
                with_undo,
                processes,
            })
        })
        .boxed()
}

fn shared_uuid() -> Uuid {
    Uuid::from_u128(0x5a4e)
}

fn toggle_uuid() -> Uuid {
    Uuid::from_u128(0x70661e)
}

/// One worker: its own handle on `dir`.
pub fn worker(dir: &Path, w: usize, script: &[WAct], delay_us: u64, epoch: Instant) -> Vec<LogEntry> {
    let mut log = vec![];
    let mut rep = match Rep::sqlite(dir, &pool()) {
        Ok(r) => r,
        Err(e) => {
            log.push(LogEntry::Other { what: format!("open: {e}"), ok: false });
            return log;
        }
    };
    rep.probe.set_delay_us(delay_us);
    let mut seq = 0u32;
    for a in script {
        match a {
            WAct::Commit { n, shared, pending } => {
                let mut ops = vec![Operation::UndoPoint];
                for _ in 0..*n {
                    seq += 1;
                    let uuid = Uuid::from_u128(((w as u128 + 1) << 32) | seq as u128);
                    ops.push(Operation::Create { uuid });
                    ops.push(Operation::Update {
                        uuid,
                        property: "tag".into(),
                        old_value: None,
                        value: Some(format!("w{w}s{seq}")),
                        timestamp: ts(0),
                    });
                    if *pending {
                        ops.push(Operation::Update {
                            uuid,
                            property: "status".into(),
                            old_value: None,
                            value: Some("pending".into()),
                            timestamp: ts(0),
                        });
                    }
                }
                if *shared {
                    seq += 1;
                    let old = block_on(rep.replica.get_task_data(shared_uuid()))
                        .ok()
                        .flatten()
                        .and_then(|t| t.get("p").map(|s| s.to_string()));
                    ops.push(Operation::Update {
                        uuid: shared_uuid(),
                        property: "p".into(),
                        old_value: old,
                        value: Some(format!("w{w}s{seq}")),
                        timestamp: ts(0),
                    });
                }
                let start = epoch.elapsed().as_micros() as u64;
                let r = rep.commit(ops.clone());
                let end = epoch.elapsed().as_micros() as u64;
                log.push(LogEntry::Commit {
                    ops,
                    ok: r.is_ok(),
                    start_us: start,
                    end_us: end,
                    err: r.err().map(|e| e.to_string()),
                });
            }
            WAct::Toggle => {
                seq += 1;
                let cur = block_on(rep.replica.get_task_data(toggle_uuid()))
                    .ok()
                    .flatten()
                    .and_then(|t| t.get("status").map(|s| s.to_string()));
                let next = if cur.as_deref() == Some("pending") { "completed" } else { "pending" };
                let ops = vec![
                    Operation::UndoPoint,
                    Operation::Update {
                        uuid: toggle_uuid(),
                        property: "status".into(),
                        old_value: cur,
                        value: Some(next.into()),
                        timestamp: ts(0),
                    },
                    // the tag that identifies this commit in the audit
                    Operation::Update {
                        uuid: toggle_uuid(),
                        property: "by".into(),
                        old_value: None,
                        value: Some(format!("w{w}s{seq}")),
                        timestamp: ts(0),
                    },
                ];
                let start = epoch.elapsed().as_micros() as u64;
                let r = rep.commit(ops.clone());
                let end = epoch.elapsed().as_micros() as u64;
                log.push(LogEntry::Commit {
                    ops,
                    ok: r.is_ok(),
                    start_us: start,
                    end_us: end,
                    err: r.err().map(|e| e.to_string()),
                });
            }
            WAct::Reassert => {
                seq += 1;
                let cur = block_on(rep.replica.get_task_data(shared_uuid()))
                    .ok()
                    .flatten()
                    .and_then(|t| t.get("p").map(|s| s.to_string()));
                if delay_us > 0 {
                    std::thread::sleep(std::time::Duration::from_micros(delay_us * 3));
                }
                let ops = vec![
                    Operation::UndoPoint,
                    Operation::Update {
                        uuid: shared_uuid(),
                        property: "p".into(),
                        old_value: cur.clone(),
                        value: cur,
                        timestamp: ts(0),
                    },
                    Operation::Update {
                        uuid: shared_uuid(),
                        property: "reasserted-by".into(),
                        old_value: None,
                        value: Some(format!("w{w}s{seq}")),
                        timestamp: ts(0),
                    },
                ];
                let start = epoch.elapsed().as_micros() as u64;
                let r = rep.commit(ops.clone());
                let end = epoch.elapsed().as_micros() as u64;
                log.push(LogEntry::Commit {
                    ops,
                    ok: r.is_ok(),
                    start_us: start,
                    end_us: end,
                    err: r.err().map(|e| e.to_string()),
                });
            }
            WAct::RoRead => {
                let pause = std::time::Duration::from_micros(delay_us + 200);
                let r = (|| -> Result<Option<String>, taskchampion::Error> {
                    let mut s = block_on(taskchampion::SqliteStorage::new(dir, taskchampion::storage::AccessMode::ReadOnly, false))?;
                    let mut txn = block_on(s.txn())?;
                    let ops1 = block_on(txn.unsynced_operations())?;
                    std::thread::sleep(pause);
                    let tasks = block_on(txn.all_tasks())?;
                    std::thread::sleep(pause);
                    let ops2 = block_on(txn.unsynced_operations())?;
                    if ops1 != ops2 {
                        return Ok(Some(format!(
                            "one transaction of a read-only handle read {} unsynchronized operations and then {}",
                            ops1.len(),
                            ops2.len()
                        )));
                    }
                    let mut m = Model::new();
                    for op in &ops1 {
                        m.apply_operation(op);
                    }
                    let got = Model(tasks.into_iter().map(|(u, t)| (u, t.into_iter().collect())).collect());
                    if got != m {
                        return Ok(Some(format!(
                            "one transaction of a read-only handle read {} operations and {} tasks that are not the replay of those operations",
                            ops1.len(),
                            got.0.len()
                        )));
                    }
                    Ok(None)
                })();
                match r {
                    Ok(Some(torn)) => log.push(LogEntry::Other { what: format!("ro-torn: {torn}"), ok: false }),
                    Ok(None) => log.push(LogEntry::Other { what: "ro-read".into(), ok: true }),
                    Err(e) => log.push(LogEntry::Other { what: format!("ro-read error: {e}"), ok: false }),
                }
            }
            WAct::Undo => {
                match block_on(rep.replica.get_undo_operations()) {
                    Ok(ops) => {
                        let r = block_on(rep.replica.commit_reversed_operations(ops.clone()));
                        log.push(LogEntry::Undo {
                            ops,
                            result: r.as_ref().ok().copied(),
                            err: r.err().map(|e| e.to_string()),
                        });
                    }
                    Err(e) => log.push(LogEntry::Other { what: format!("get_undo_operations: {e}"), ok: false }),
                }
            }
            WAct::Rebuild(renumber) => {
                let r = block_on(rep.replica.rebuild_working_set(*renumber));
                log.push(LogEntry::Other { what: "rebuild".into(), ok: r.is_ok() });
            }
            WAct::Read => {
                let r = block_on(rep.replica.all_task_data());
                let r2 = block_on(rep.replica.working_set());
                log.push(LogEntry::Other { what: "read".into(), ok: r.is_ok() && r2.is_ok() });
            }
        }
    }
    log
}

/// Child process entry: `tcverif --c17-child <dir> <workload.json> <worker>`
pub fn child_main(dir: &str, path: &str, w: &str) -> i32 {
    let wl: Workload = serde_json::from_str(&std::fs::read_to_string(path).expect("read workload")).expect("parse workload");
    let w: usize = w.parse().expect("worker index");
    let log = worker(Path::new(dir), w, &wl.scripts[w], wl.delay_us, Instant::now());
    println!("{}", serde_json::to_string(&log).unwrap());
    0
}

pub struct Audit {
    pub ok_commits: usize,
    pub failed_commits: usize,
    pub ok_undos: usize,
    pub overlapping_pairs: usize,
}

pub fn run_workload(wl: &Workload) -> Result<Audit, Failure> {
    let dir = tempfile::TempDir::new().map_err(|e| Failure::new("infra", format!("{e}")))?;
    let db = dir.path().join("db");
    std::fs::create_dir_all(&db).unwrap();
    // setup: the shared task
    let setup_ops = vec![
        Operation::UndoPoint,
        Operation::Create { uuid: shared_uuid() },
        Operation::Update {
            uuid: shared_uuid(),
            property: "p".into(),
            old_value: None,
            value: Some("initial".into()),
            timestamp: ts(0),
        },
        Operation::Create { uuid: toggle_uuid() },
        Operation::Update {
            uuid: toggle_uuid(),
            property: "status".into(),
            old_value: None,
            value: Some("completed".into()),
            timestamp: ts(0),
        },
    ];
    {
        let mut r = Rep::sqlite(&db, &pool()).map_err(|e| Failure::new("sqlite-open", format!("{e}")))?;
        r.commit(setup_ops.clone()).map_err(|e| Failure::new("commit-error", format!("setup: {e}")))?;
    }
    let epoch = Instant::now();
    let logs: Vec<Vec<LogEntry>> = if wl.processes {
        let path = dir.path().join("workload.json");
        std::fs::write(&path, serde_json::to_string(wl).unwrap()).unwrap();
        let exe = std::env::current_exe().map_err(|e| Failure::new("infra", format!("{e}")))?;
        let children: Vec<_> = (0..wl.scripts.len())
            .map(|w| {
                std::process::Command::new(&exe)
                    .arg("--c17-child")
                    .arg(&db)
                    .arg(&path)
                    .arg(w.to_string())
                    .stdin(std::process::Stdio::null())
                    .stderr(std::process::Stdio::null())
                    .stdout(std::process::Stdio::piped())
                    .spawn()
            })
            .collect();
        let mut logs = vec![];
        for c in children {
            let out = c
                .map_err(|e| Failure::new("infra", format!("spawn: {e}")))?
                .wait_with_output()
                .map_err(|e| Failure::new("infra", format!("wait: {e}")))?;
            let text = String::from_utf8_lossy(&out.stdout);
            let log: Vec<LogEntry> = serde_json::from_str(text.trim())
                .map_err(|e| Failure::new("infra", format!("child output unreadable ({e}): {text}")))?;
            logs.push(log);
        }
        logs
    } else {
        std::thread::scope(|s| {
            let hs: Vec<_> = wl
                .scripts
                .iter()
                .enumerate()
                .map(|(w, script)| {
                    let db = &db;
                    s.spawn(move || worker(db, w, script, wl.delay_us, epoch))
                })
                .collect();
            hs.into_iter().map(|h| h.join().expect("worker panicked")).collect()
        })
    };

    // ---- audit through a fresh handle
    let mut s: Box<dyn Storage> = Box::new(open_sqlite(&db).map_err(|e| Failure::new("reopen-failed", format!("{e}")))?);
    let d: Dump = dump_storage(s.as_mut(), &pool()).map_err(|e| Failure::new("reopen-read-failed", format!("{e}")))?;
    let stored = &d.unsynced;
    // segments at undo points
    let mut segments: Vec<Vec<Operation>> = vec![];
    for op in stored {
        if op.is_undo_point() || segments.is_empty() {
            segments.push(vec![]);
        }
        segments.last_mut().unwrap().push(op.clone());
    }
    // expectations
    let mut ok_commits: Vec<(usize, usize, Vec<Operation>)> = vec![];
    let mut failed: Vec<Vec<Operation>> = vec![];
    let mut undone: BTreeSet<String> = BTreeSet::new();
    let mut ok_undos = 0;
    let mut intervals: Vec<(u64, u64)> = vec![];
    let key = |ops: &[Operation]| -> String {
        ops.iter()
            .filter_map(|o| match o {
                Operation::Update { value: Some(v), .. } if v.starts_with('w') => Some(v.clone()),
                _ => None,
            })
            .collect::<Vec<_>>()
            .join(",")
    };
    for (w, log) in logs.iter().enumerate() {
        for (i, e) in log.iter().enumerate() {
            match e {
                LogEntry::Commit { ops, ok, start_us, end_us, .. } => {
                    if *ok {
                        ok_commits.push((w, i, ops.clone()));
                        intervals.push((*start_us, *end_us));
                    } else {
                        failed.push(ops.clone());
                    }
                }
                LogEntry::Undo { ops, result: Some(true), .. } => {
                    ok_undos += 1;
                    undone.insert(key(ops));
                }
                LogEntry::Other { what, .. } if what.starts_with("ro-torn") => {
                    return Err(Failure::new("read-only-torn-read", format!("worker {w}: {what}")));
                }
                LogEntry::Other { what, ok } if what.starts_with("open") && !*ok => {
                    return Err(Failure::new("infra", format!("worker {w} could not open the database: {what}")));
                }
                _ => {}
            }
        }
    }
    let mut expected_present: BTreeMap<String, Vec<Operation>> = BTreeMap::new();
    ok_commits.push((usize::MAX, 0, setup_ops.clone()));
    for (_, _, ops) in &ok_commits {
        if !undone.contains(&key(ops)) {
            expected_present.insert(key(ops), ops.clone());
        }
    }
    let mut seen: BTreeSet<String> = BTreeSet::new();
    for seg in &segments {
        let k = key(seg);
        crate::ensure!(
            seen.insert(k.clone()),
            "duplicated-commit",
            "the operations of one commit ({k}) occur twice in the stored log"
        );
        match expected_present.get(&k) {
            Some(ops) => crate::ensure!(
                ops == seg,
                "torn-commit",
                "a stored commit is not contiguous and in order: stored {seg:?}, committed {ops:?}"
            ),
            None => {
                let what = if failed.iter().any(|f| !key(f).is_empty() && key(f).split(',').any(|t| k.split(',').any(|s| s == t))) {
                    "failed-commit-present"
                } else if undone.iter().any(|u| u == &k) {
                    "undone-commit-present"
                } else {
                    "torn-commit"
                };
                crate::fail!(
                    what,
                    "the stored log contains the segment {seg:?} which is not exactly one successful, not undone commit"
                );
            }
        }
    }
    for (k, ops) in &expected_present {
        crate::ensure!(
            seen.contains(k),
            "lost-commit",
            "a commit that reported success is missing from the database: {ops:?}"
        );
    }
    // replaying the recorded operations in stored order reproduces the stored tasks
    let mut m = Model::new();
    for op in stored {
        m.apply_operation(op);
    }
    crate::ensure!(
        m == d.tasks,
        "replay-mismatch",
        "replaying the {} stored operations gives {} tasks with different content than the {} stored tasks",
        stored.len(),
        m.0.len(),
        d.tasks.0.len()
    );
    let mut ws_seen = BTreeSet::new();
    for u in d.working_set.iter().flatten() {
        crate::ensure!(ws_seen.insert(*u), "ws-duplicate", "working-set entry {u} is duplicated");
    }
    // how much overlap did we actually get?
    let mut overlapping = 0;
    for i in 0..intervals.len() {
        for j in i + 1..intervals.len() {
            if intervals[i].0 < intervals[j].1 && intervals[j].0 < intervals[i].1 {
                overlapping += 1;
            }
        }
    }
    Ok(Audit {
        ok_commits: ok_commits.len() - 1,
        failed_commits: failed.len(),
        ok_undos,
        overlapping_pairs: overlapping,
    })
}

pub fn run(e: &Engine) {
    e.assume("the lock schedule belongs to SQLite and the OS; only the workload is reproducible, and a failure's reproduction is probabilistic");
    e.assume("every commit starts with an undo point; workloads with undo do not update the shared task (a caller-side stale read of the old value is not the storage's fault)");
    if let Some(path) = &e.replay {
        let v: serde_json::Value = serde_json::from_str(&std::fs::read_to_string(path).unwrap_or_default()).unwrap_or_default();
        if let Ok(wl) = serde_json::from_value::<Workload>(v["case"].clone()) {
            for round in 0..20 {
                if let Err(f) = run_workload(&wl) {
                    println!("REPLAY FAIL (round {round}) {}", f.msg);
                    e.record_violation("stress", f, &v["case"]);
                    return;
                }
            }
            println!("REPLAY PASS (20 rounds; reproduction of schedule-dependent failures is probabilistic)");
        }
        return;
    }
    let runs = e.tier.pick(240, 6000) as usize;
    let mut fps = vec![];
    let mut samples = vec![];
    let (mut total_overlap, mut total_ok, mut total_failed, mut total_undos, mut procs) = (0u64, 0u64, 0u64, 0u64, 0u64);
    let mut n = 0u64;
    let workloads: Vec<Workload> = (0..runs)
        .map(|i| crate::engine::draw(&strategy(i % 4 == 3), e.seed.wrapping_add(0xc17).wrapping_add(i as u64 * 104_729)))
        .collect();
    // several workloads at a time: the workers mostly wait for the database lock
    let results: std::sync::Mutex<Vec<(usize, Result<Audit, Failure>)>> = std::sync::Mutex::new(vec![]);
    let next = std::sync::atomic::AtomicUsize::new(0);
    let stop = std::sync::atomic::AtomicBool::new(false);
    std::thread::scope(|s| {
        for _ in 0..4 {
            s.spawn(|| loop {
                let i = next.fetch_add(1, std::sync::atomic::Ordering::Relaxed);
                if i >= workloads.len() || stop.load(std::sync::atomic::Ordering::Relaxed) {
                    break;
                }
                let r = run_workload(&workloads[i]);
                if matches!(&r, Err(f) if f.signature != "infra") {
                    stop.store(true, std::sync::atomic::Ordering::Relaxed);
                }
                results.lock().unwrap().push((i, r));
            });
        }
    });
    let mut results = results.into_inner().unwrap();
    results.sort_by_key(|(i, _)| *i);
    for (i, r) in results {
        let wl = &workloads[i];
        let processes = wl.processes;
        n += 1;
        match r {
            Ok(a) => {
                total_overlap += a.overlapping_pairs as u64;
                total_ok += a.ok_commits as u64;
                total_failed += a.failed_commits as u64;
                total_undos += a.ok_undos as u64;
                if processes {
                    procs += 1;
                }
                if a.overlapping_pairs > 0 {
                    fps.push(hash_of(&format!("{wl:?}")));
                    if samples.len() < 3 {
                        samples.push(serde_json::json!({"workers": wl.scripts.len(), "mode": if wl.processes { "processes" } else { "threads" }, "delay_us": wl.delay_us, "scripts": wl.scripts.iter().map(|s| format!("{s:?}")).collect::<Vec<_>>(), "ok_commits": a.ok_commits, "failed_commits": a.failed_commits, "overlapping_commit_pairs": a.overlapping_pairs}));
                    }
                }
            }
            Err(f) if f.signature == "infra" => e.note(format!("run skipped: {}", f.msg)),
            Err(f) => {
                e.record_violation("stress", f, &serde_json::to_value(wl).unwrap());
                break;
            }
        }
    }
    e.record_external(
        "stress",
        "2-8 workers (threads; every 4th run child processes), each with its own handle on one SQLite directory, run generated scripts of commits (operations tagged worker/sequence, optionally touching a shared task, or re-asserting the value just read of a shared property), undo, rebuild, reads, and one-transaction consistency reads through a separate read-only handle (operations read twice must agree, tasks must be their replay), with 0-1000 us sleeps inside every storage call; audit through a fresh handle: every successful commit present exactly once, contiguous and in order, failed and undone commits absent, stored tasks == replay of the stored operations, working-set entries unique; non-trivial = at least two commits' wall-clock intervals overlapped (measured)",
        n,
        fps,
        vec![
            ("overlapping-commit-pairs-observed", total_overlap),
            ("successful-commits", total_ok),
            ("failed-commits", total_failed),
            ("successful-undos", total_undos),
            ("runs-with-child-processes", procs),
        ],
        samples,
    );
}
