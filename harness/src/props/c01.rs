//! C01 — replicas converge after any history of edits and syncs.

use super::common::*;
use crate::engine::{CaseReport, CheckResult, Engine};

pub fn check_history(h: &History) -> CheckResult {
    let n = h.replicas as usize;
    let mut w = World::new(n);
    for r in &mut w.realizers {
        r.stale_old = true;
    }
    let mut rep = CaseReport::default();
    let mut flags = RunFlags::default();
    run_actions(&mut w, &h.actions, &mut rep, &mut flags)?;
    w.quiesce_and_check()?;
    rep.nontrivial = flags.concurrent_same_task && flags.pull_and_push;
    Ok(rep)
}

pub fn run(e: &Engine) {
    e.assume("the harness ModelServer is a correct server: each request is atomic and the chain is linear");
    e.assume("local operations are valid against the local state (as TaskData records them); timestamps are generated, not wall-clock");
    let rule = "histories of commit/sync actions over 2..=4 replicas (thorough: ..=6), 3 task uuids x 3 properties x 5 timestamps; \
non-trivial = at some point two replicas held unsynced operations on the same task AND some sync both pulled and pushed; \
distinct = distinct generated history";
    let small = e.tier.pick(60_000, 2_000_000);
    let big = e.tier.pick(400, 8000);
    let (maxr, maxa) = e.tier.pick((4, 40), (6, 120));
    e.campaign(
        "histories",
        rule,
        small,
        || history_strategy(maxr, 3, maxa, 0),
        render_history,
        check_history,
    );
    e.campaign(
        "multibatch",
        "as 'histories' but with pending changes above the 1 000 000-byte batching threshold (2-3 updates of 340-700 kB interleaved with small operations); non-trivial as above",
        big,
        || history_strategy(3, 2, e.tier.pick(10, 16), 3),
        render_history,
        check_history,
    );
    e.fuzz_corpus("c01_history");
    e.fuzz_campaign("c01_history", 300000);
}
