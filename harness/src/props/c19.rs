//! C19 — task mutators, their recorded operations and the task model agree.
//!
//! The model predicts, for every mutator call, the exact list of `Update` operations it must
//! record (property, previous value, new value; "now" values are accepted inside the interval
//! measured around the call and then adopted), and the resulting task map.

use super::common::World;
use crate::engine::exec::block_on;
use crate::engine::model::task_uuid;
use crate::engine::{CaseReport, CheckResult, Engine, Failure};
use chrono::{TimeZone, Utc};
use proptest::prelude::*;
use serde::{Deserialize, Serialize};
use std::collections::{BTreeMap, BTreeSet};
use taskchampion::{Annotation, Operation, Operations, Status, Tag, Task, Uuid};

#[derive(Clone, Debug, PartialEq, Eq, Hash, Serialize, Deserialize)]
pub enum Mut {
    SetStatus(u8),
    Done,
    DeprecatedDelete,
    SetDescription(String),
    SetPriority(String),
    SetEntry(Option<i64>),
    SetWait(Option<i64>),
    SetDue(Option<i64>),
    SetModified(i64),
    Start,
    Stop,
    AddTag(String),
    RemoveTag(String),
    AddAnnotation(i64, String),
    RemoveAnnotation(i64),
    SetUda(String, String),
    RemoveUda(String),
    SetLegacyUda(String, String),
    RemoveLegacyUda(String),
    SetNsUda(String, String, String),
    RemoveNsUda(String, String),
    AddDep(u8),
    RemoveDep(u8),
    SetValue(String, Option<String>),
    SetTimestamp(String, Option<i64>),
}

#[derive(Clone, Debug, PartialEq, Eq, Hash, Serialize, Deserialize)]
pub enum Session {
    /// high-level: one Task object per listed task, mutators applied in order
    Tasks(Vec<(u8, Mut)>),
    /// low-level: TaskData::update / delete
    Raw(Vec<(u8, RawMut)>),
    /// the previous high-level session once more
    Again,
}

#[derive(Clone, Debug, PartialEq, Eq, Hash, Serialize, Deserialize)]
pub enum RawMut {
    Update(String, Option<String>),
    Delete,
}

#[derive(Clone, Debug, PartialEq, Eq, Hash, Serialize, Deserialize)]
pub struct Case {
    pub sessions: Vec<Session>,
}

const NT: u8 = 4;
const RESERVED: [&str; 13] = [
    "description", "due", "modified", "start", "status", "priority", "wait", "end", "entry",
    "tag_x", "annotation_1", "dep_y", "tag_",
];

fn key_strategy() -> BoxedStrategy<String> {
    prop_oneof![
        4 => prop_oneof![Just("uda"), Just("githubid"), Just("ns.key"), Just("a.b.c"), Just("Status"), Just("tags")].prop_map(String::from),
        3 => proptest::sample::select(RESERVED.to_vec()).prop_map(String::from),
        1 => "[a-z]{1,6}",
    ]
    .boxed()
}

fn tag_strategy() -> BoxedStrategy<String> {
    prop_oneof![
        5 => prop_oneof![Just("next"), Just("home"), Just("a"), Just("ünï"), Just("x.y"), Just("w1")].prop_map(String::from),
        2 => prop_oneof![Just("PENDING"), Just("WAITING"), Just("ACTIVE"), Just("BLOCKED"), Just("UNBLOCKED"), Just("BLOCKING"), Just("COMPLETED"), Just("DELETED")].prop_map(String::from),
    ]
    .boxed()
}

fn ts_strategy() -> BoxedStrategy<i64> {
    prop_oneof![
        3 => 0i64..4_000_000_000,
        1 => -10_000_000_000i64..10_000_000_000,
        1 => Just(1_900_000_000i64),
    ]
    .boxed()
}

fn mut_strategy() -> BoxedStrategy<Mut> {
    let text = || prop_oneof![2 => "[a-z ]{0,8}", 1 => "\\PC{0,6}"];
    prop_oneof![
        6 => (0u8..5).prop_map(Mut::SetStatus),
        1 => Just(Mut::Done),
        1 => Just(Mut::DeprecatedDelete),
        2 => text().prop_map(Mut::SetDescription),
        1 => prop_oneof![Just("H"), Just("M"), Just("L"), Just("")].prop_map(|s| Mut::SetPriority(s.into())),
        1 => proptest::option::of(ts_strategy()).prop_map(Mut::SetEntry),
        2 => proptest::option::of(ts_strategy()).prop_map(Mut::SetWait),
        1 => proptest::option::of(ts_strategy()).prop_map(Mut::SetDue),
        2 => ts_strategy().prop_map(Mut::SetModified),
        2 => Just(Mut::Start),
        2 => Just(Mut::Stop),
        3 => tag_strategy().prop_map(Mut::AddTag),
        2 => tag_strategy().prop_map(Mut::RemoveTag),
        2 => (ts_strategy(), text()).prop_map(|(t, d)| Mut::AddAnnotation(t, d)),
        1 => ts_strategy().prop_map(Mut::RemoveAnnotation),
        3 => (key_strategy(), text()).prop_map(|(k, v)| Mut::SetUda(k, v)),
        2 => key_strategy().prop_map(Mut::RemoveUda),
        1 => (key_strategy(), text()).prop_map(|(k, v)| Mut::SetLegacyUda(k, v)),
        1 => key_strategy().prop_map(Mut::RemoveLegacyUda),
        1 => (prop_oneof![Just(""), Just("ns"), Just("tag_")].prop_map(String::from), key_strategy(), text()).prop_map(|(n, k, v)| Mut::SetNsUda(n, k, v)),
        1 => (prop_oneof![Just(""), Just("ns")].prop_map(String::from), key_strategy()).prop_map(|(n, k)| Mut::RemoveNsUda(n, k)),
        3 => (0..NT).prop_map(Mut::AddDep),
        1 => (0..NT).prop_map(Mut::RemoveDep),
        2 => (key_strategy(), proptest::option::of(text())).prop_map(|(k, v)| Mut::SetValue(k, v)),
        1 => (prop_oneof![Just("scheduled"), Just("until"), Just("end"), Just("modified")].prop_map(String::from), proptest::option::of(ts_strategy())).prop_map(|(k, v)| Mut::SetTimestamp(k, v)),
    ]
    .boxed()
}

pub fn strategy() -> BoxedStrategy<Case> {
    let session = prop_oneof![
        8 => proptest::collection::vec((0..NT, mut_strategy()), 1..9).prop_map(Session::Tasks),
        2 => proptest::collection::vec((0..NT, prop_oneof![
                4 => (key_strategy(), proptest::option::of("[a-z]{0,4}")).prop_map(|(k, v)| RawMut::Update(k, v)),
                1 => Just(RawMut::Delete)
            ]), 1..5).prop_map(Session::Raw),
        2 => Just(Session::Again),
    ];
    proptest::collection::vec(session, 1..6)
        .prop_map(|sessions| Case { sessions })
        .boxed()
}

type Map = BTreeMap<String, String>;

/// A predicted value: a literal, or "the time of the call".
#[derive(Debug, Clone, PartialEq)]
enum PV {
    Lit(Option<String>),
    Now,
}

/// The model of one `Task` object held by the caller.
struct Held {
    map: Map,
    modified_emitted: bool,
}

fn is_known_key(key: &str) -> bool {
    ["description", "due", "modified", "start", "status", "priority", "wait", "end", "entry"].contains(&key)
        || key.starts_with("tag_")
        || key.starts_with("annotation_")
        || key.starts_with("dep_")
}

fn status_str(st: u8) -> &'static str {
    ["pending", "completed", "deleted", "recurring", "frobnicated"][st as usize % 5]
}

fn status_val(st: u8) -> Status {
    match st % 5 {
        0 => Status::Pending,
        1 => Status::Completed,
        2 => Status::Deleted,
        3 => Status::Recurring,
        _ => Status::Unknown("frobnicated".into()),
    }
}

impl Held {
    /// predicted updates of `Task::set_value(prop, value)`
    fn set_value(&mut self, prop: &str, value: PV, out: &mut Vec<(String, Option<String>, PV)>) {
        if prop != "modified" && !self.modified_emitted {
            out.push(("modified".into(), self.map.get("modified").cloned(), PV::Now));
            self.map.insert("modified".into(), "<now>".into());
        }
        self.modified_emitted = true;
        out.push((prop.to_string(), self.map.get(prop).cloned(), value.clone()));
        match value {
            PV::Lit(Some(v)) => {
                self.map.insert(prop.to_string(), v);
            }
            PV::Lit(None) => {
                self.map.remove(prop);
            }
            PV::Now => {
                self.map.insert(prop.to_string(), "<now>".into());
            }
        }
    }

    /// Returns Ok(predicted updates) or Err(()) when the call must be refused with a usage error.
    fn predict(&mut self, m: &Mut) -> Result<Vec<(String, Option<String>, PV)>, ()> {
        let mut out = vec![];
        let lit = |s: &str| PV::Lit(Some(s.to_string()));
        let tsv = |t: &Option<i64>| PV::Lit(t.map(|v| v.to_string()));
        match m {
            Mut::SetStatus(_) | Mut::Done | Mut::DeprecatedDelete => {
                let st = match m {
                    Mut::SetStatus(s) => *s % 5,
                    Mut::Done => 1,
                    _ => 2,
                };
                match st {
                    0 | 3 => {
                        if self.map.contains_key("end") {
                            self.set_value("end", PV::Lit(None), &mut out);
                        }
                    }
                    1 | 2 => {
                        if !self.map.contains_key("end") {
                            self.set_value("end", PV::Now, &mut out);
                        }
                    }
                    _ => {}
                }
                self.set_value("status", lit(status_str(st)), &mut out);
            }
            Mut::SetDescription(d) => self.set_value("description", lit(d), &mut out),
            Mut::SetPriority(p) => self.set_value("priority", lit(p), &mut out),
            Mut::SetEntry(t) => self.set_value("entry", tsv(t), &mut out),
            Mut::SetWait(t) => self.set_value("wait", tsv(t), &mut out),
            Mut::SetDue(t) => self.set_value("due", tsv(t), &mut out),
            Mut::SetModified(t) => self.set_value("modified", tsv(&Some(*t)), &mut out),
            Mut::Start => {
                if !self.map.contains_key("start") {
                    self.set_value("start", PV::Now, &mut out);
                }
            }
            Mut::Stop => self.set_value("start", PV::Lit(None), &mut out),
            Mut::AddTag(t) | Mut::RemoveTag(t) => {
                if t.chars().all(|c| c.is_ascii_uppercase()) {
                    return Err(());
                }
                let v = if matches!(m, Mut::AddTag(_)) { lit("") } else { PV::Lit(None) };
                self.set_value(&format!("tag_{t}"), v, &mut out);
            }
            Mut::AddAnnotation(t, d) => self.set_value(&format!("annotation_{t}"), lit(d), &mut out),
            Mut::RemoveAnnotation(t) => self.set_value(&format!("annotation_{t}"), PV::Lit(None), &mut out),
            Mut::SetUda(k, v) | Mut::SetLegacyUda(k, v) => {
                if is_known_key(k) {
                    return Err(());
                }
                self.set_value(k, lit(v), &mut out);
            }
            Mut::RemoveUda(k) | Mut::RemoveLegacyUda(k) => {
                if is_known_key(k) {
                    return Err(());
                }
                self.set_value(k, PV::Lit(None), &mut out);
            }
            Mut::SetNsUda(n, k, v) => {
                let key = if n.is_empty() { k.clone() } else { format!("{n}.{k}") };
                if is_known_key(&key) {
                    return Err(());
                }
                self.set_value(&key, lit(v), &mut out);
            }
            Mut::RemoveNsUda(n, k) => {
                let key = if n.is_empty() { k.clone() } else { format!("{n}.{k}") };
                if is_known_key(&key) {
                    return Err(());
                }
                self.set_value(&key, PV::Lit(None), &mut out);
            }
            Mut::AddDep(t) => self.set_value(&format!("dep_{}", task_uuid(*t as usize)), lit(""), &mut out),
            Mut::RemoveDep(t) => self.set_value(&format!("dep_{}", task_uuid(*t as usize)), PV::Lit(None), &mut out),
            Mut::SetValue(k, v) => self.set_value(k, PV::Lit(v.clone()), &mut out),
            Mut::SetTimestamp(k, t) => self.set_value(k, tsv(t), &mut out),
        }
        Ok(out)
    }
}

fn dt(t: i64) -> chrono::DateTime<Utc> {
    Utc.timestamp_opt(t, 0).unwrap()
}

fn apply_real(task: &mut Task, m: &Mut, ops: &mut Operations) -> Result<(), taskchampion::Error> {
    #[allow(deprecated)]
    match m {
        Mut::SetStatus(s) => task.set_status(status_val(*s), ops),
        Mut::Done => task.done(ops),
        Mut::DeprecatedDelete => task.delete(ops),
        Mut::SetDescription(d) => task.set_description(d.clone(), ops),
        Mut::SetPriority(p) => task.set_priority(p.clone(), ops),
        Mut::SetEntry(t) => task.set_entry(t.map(dt), ops),
        Mut::SetWait(t) => task.set_wait(t.map(dt), ops),
        Mut::SetDue(t) => task.set_due(t.map(dt), ops),
        Mut::SetModified(t) => task.set_modified(dt(*t), ops),
        Mut::Start => task.start(ops),
        Mut::Stop => task.stop(ops),
        Mut::AddTag(t) => task.add_tag(&t.parse::<Tag>().expect("generated tag must parse"), ops),
        Mut::RemoveTag(t) => task.remove_tag(&t.parse::<Tag>().expect("generated tag must parse"), ops),
        Mut::AddAnnotation(t, d) => task.add_annotation(
            Annotation {
                entry: dt(*t),
                description: d.clone(),
            },
            ops,
        ),
        Mut::RemoveAnnotation(t) => task.remove_annotation(dt(*t), ops),
        Mut::SetUda(k, v) => task.set_user_defined_attribute(k.clone(), v.clone(), ops),
        Mut::RemoveUda(k) => task.remove_user_defined_attribute(k.clone(), ops),
        Mut::SetLegacyUda(k, v) => task.set_legacy_uda(k.clone(), v.clone(), ops),
        Mut::RemoveLegacyUda(k) => task.remove_legacy_uda(k.clone(), ops),
        Mut::SetNsUda(n, k, v) => task.set_uda(n, k, v.clone(), ops),
        Mut::RemoveNsUda(n, k) => task.remove_uda(n, k, ops),
        Mut::AddDep(t) => task.add_dependency(task_uuid(*t as usize), ops),
        Mut::RemoveDep(t) => task.remove_dependency(task_uuid(*t as usize), ops),
        Mut::SetValue(k, v) => task.set_value(k.clone(), v.clone(), ops),
        Mut::SetTimestamp(k, t) => task.set_timestamp(k, t.map(dt), ops),
    }
}

fn task_map(t: &Task) -> Map {
    t.clone()
        .into_task_data()
        .iter()
        .map(|(k, v)| (k.clone(), v.clone()))
        .collect()
}

/// Compare a predicted map (with "<now>" placeholders) with a real one, adopting now-values
/// that lie in [t0, t1].
fn adopt(pred: &mut Map, real: &Map, t0: i64, t1: i64, what: &str) -> Result<(), Failure> {
    crate::ensure!(
        pred.keys().collect::<Vec<_>>() == real.keys().collect::<Vec<_>>(),
        "held-task-keys",
        "{what}: the held task has keys {:?}, the task model gives {:?}",
        real.keys().collect::<Vec<_>>(),
        pred.keys().collect::<Vec<_>>()
    );
    for (k, v) in pred.iter_mut() {
        let r = &real[k];
        if v == "<now>" {
            let ok = r.parse::<i64>().map(|x| x >= t0 && x <= t1).unwrap_or(false);
            crate::ensure!(ok, "now-value", "{what}: {k}={r:?} should be the time of the call ({t0}..={t1})");
            *v = r.clone();
        } else {
            crate::ensure!(v == r, "held-task-value", "{what}: {k} is {r:?} on the held task, the task model gives {v:?}");
        }
    }
    Ok(())
}

pub fn check_case(c: &Case) -> CheckResult {
    let mut rep = CaseReport::default();
    let mut w = World::new(1);
    // stored state according to the model
    let mut stored: BTreeMap<Uuid, Map> = BTreeMap::new();
    let mut last_tasks_session: Option<Vec<(u8, Mut)>> = None;
    let mut nontrivial = false;
    let api = |e: taskchampion::Error| Failure::new("api-error", format!("{e}"));

    for (si, s) in c.sessions.iter().enumerate() {
        let muts: Vec<(u8, Mut)> = match s {
            Session::Tasks(m) => m.clone(),
            Session::Again => match &last_tasks_session {
                Some(m) => {
                    rep.class("same-mutators-applied-twice");
                    m.clone()
                }
                None => continue,
            },
            Session::Raw(raw) => {
                // low-level session
                let mut ops = Operations::new();
                let mut held: BTreeMap<u8, Option<taskchampion::TaskData>> = BTreeMap::new();
                let mut model = stored.clone();
                for (t, rm) in raw {
                    let uuid = task_uuid(*t as usize);
                    if !held.contains_key(t) {
                        held.insert(*t, block_on(w.reps[0].replica.get_task_data(uuid)).map_err(api)?);
                    }
                    let slot = held.get_mut(t).unwrap();
                    if slot.is_none() {
                        *slot = Some(taskchampion::TaskData::create(uuid, &mut ops));
                        model.insert(uuid, Map::new());
                    }
                    match rm {
                        RawMut::Update(k, v) => {
                            let before = ops.len();
                            slot.as_mut().unwrap().update(k.clone(), v.clone(), &mut ops);
                            let want_old = model[&uuid].get(k).cloned();
                            match &ops[before..] {
                                [Operation::Update { uuid: u, property, old_value, value, .. }]
                                    if *u == uuid && property == k && *old_value == want_old && value == v => {}
                                other => crate::fail!("raw-update-op", "session {si}: TaskData::update({k:?},{v:?}) recorded {other:?}, expected one update with old value {want_old:?}"),
                            }
                            match v {
                                Some(v) => model.get_mut(&uuid).unwrap().insert(k.clone(), v.clone()),
                                None => model.get_mut(&uuid).unwrap().remove(k),
                            };
                        }
                        RawMut::Delete => {
                            let before = ops.len();
                            slot.as_mut().unwrap().delete(&mut ops);
                            let want_old = model[&uuid].clone();
                            match &ops[before..] {
                                [Operation::Delete { uuid: u, old_task }]
                                    if *u == uuid && old_task.iter().map(|(k, v)| (k.clone(), v.clone())).collect::<Map>() == want_old => {}
                                other => crate::fail!("raw-delete-op", "session {si}: TaskData::delete recorded {other:?}, expected a delete carrying {want_old:?}"),
                            }
                            model.remove(&uuid);
                            *slot = None;
                            // one object per task per session: stop editing this task
                            held.insert(*t, None);
                            break;
                        }
                    }
                }
                w.reps[0].commit(ops).map_err(|e| Failure::new("commit-error", format!("session {si}: {e}")))?;
                let before_keys = stored.clone();
                stored = model;
                check_cached_depmap(&mut w, &before_keys, &format!("after raw session {si}"))?;
                verify_stored(&mut w, &stored, &format!("after raw session {si}"))?;
                rep.class("low-level-session");
                continue;
            }
        };
        if let Session::Tasks(m) = s {
            last_tasks_session = Some(m.clone());
        }
        // high-level session
        let mut ops = Operations::new();
        let mut objs: BTreeMap<u8, (Task, Held)> = BTreeMap::new();
        let mut kinds: std::collections::HashSet<std::mem::Discriminant<Mut>> = Default::default();
        let mut status_transition = false;
        for (t, m) in &muts {
            let uuid = task_uuid(*t as usize);
            if !objs.contains_key(t) {
                let before = ops.len();
                let task = block_on(w.reps[0].replica.create_task(uuid, &mut ops)).map_err(api)?;
                let existed = stored.contains_key(&uuid);
                crate::ensure!(
                    (ops.len() == before) == existed && (existed || matches!(&ops[before..], [Operation::Create { uuid: u }] if *u == uuid)),
                    "create-op",
                    "session {si}: create_task for an {} task recorded {:?}",
                    if existed { "existing" } else { "absent" },
                    &ops[before..]
                );
                let map = stored.get(&uuid).cloned().unwrap_or_default();
                crate::ensure!(task_map(&task) == map, "loaded-task", "session {si}: create_task returned {:?}, stored is {map:?}", task_map(&task));
                objs.insert(*t, (task, Held { map, modified_emitted: false }));
            }
            let (task, held) = objs.get_mut(t).unwrap();
            let before = ops.len();
            let t0 = Utc::now().timestamp();
            let res = apply_real(task, m, &mut ops);
            let t1 = Utc::now().timestamp();
            let what = format!("session {si}, {m:?} on task {t}");
            kinds.insert(std::mem::discriminant(m));
            match held.predict(m) {
                Err(()) => {
                    crate::ensure!(
                        matches!(res, Err(taskchampion::Error::Usage(_))),
                        "reserved-name-accepted",
                        "{what}: a reserved name / synthetic tag must be rejected with a usage error, got {res:?}"
                    );
                    crate::ensure!(ops.len() == before, "rejected-call-recorded-ops", "{what}: the rejected call recorded {:?}", &ops[before..]);
                    crate::ensure!(task_map(task).len() == held.map.len(), "rejected-call-changed-task", "{what}: the rejected call changed the held task");
                    rep.class("reserved-name-or-synthetic-tag-rejected");
                }
                Ok(pred) => {
                    res.map_err(|e| Failure::new("mutator-error", format!("{what}: unexpected error {e}")))?;
                    let rec = &ops[before..];
                    crate::ensure!(
                        rec.len() == pred.len(),
                        "recorded-op-count",
                        "{what}: recorded {} operations {:?}, the task model predicts {:?}",
                        rec.len(),
                        rec,
                        pred
                    );
                    for (op, (p, old, val)) in rec.iter().zip(pred.iter()) {
                        let Operation::Update { uuid: u, property, old_value, value, .. } = op else {
                            crate::fail!("recorded-op-kind", "{what}: recorded {op:?}");
                        };
                        crate::ensure!(*u == uuid && property == p, "recorded-op-property", "{what}: recorded an update of {property:?}, predicted {p:?}");
                        // old values: "<now>" placeholders were adopted below after each call
                        crate::ensure!(
                            old_value == old,
                            "recorded-old-value",
                            "{what}: the update of {p:?} records old value {old_value:?} but the property really was {old:?}"
                        );
                        match val {
                            PV::Lit(v) => crate::ensure!(value == v, "recorded-new-value", "{what}: update of {p:?} to {value:?}, predicted {v:?}"),
                            PV::Now => {
                                let ok = value.as_ref().and_then(|x| x.parse::<i64>().ok()).map(|x| x >= t0 && x <= t1).unwrap_or(false);
                                crate::ensure!(ok, "now-value", "{what}: {p} set to {value:?}, expected the time of the call");
                            }
                        }
                        if p == "modified" && matches!(val, PV::Now) {
                            rep.class("automatic-modified-refresh");
                        }
                    }
                    let real = task_map(task);
                    adopt(&mut held.map, &real, t0, t1, &what)?;
                    if matches!(m, Mut::SetStatus(_) | Mut::Done | Mut::DeprecatedDelete) {
                        status_transition = true;
                        // end rules, stated directly
                        let st = real.get("status").map(|s| s.as_str());
                        if matches!(st, Some("completed") | Some("deleted")) {
                            crate::ensure!(real.contains_key("end"), "end-rule", "{what}: completed/deleted task without an end time");
                        }
                        if matches!(st, Some("pending") | Some("recurring")) {
                            crate::ensure!(!real.contains_key("end"), "end-rule", "{what}: re-opened task still has an end time");
                        }
                    }
                    if matches!(m, Mut::SetModified(_)) {
                        rep.class("explicit-modified");
                    }
                }
            }
        }
        // reads on the held objects agree with their maps
        for (t, (task, held)) in &objs {
            read_back(task, &held.map, &format!("session {si} held task {t}"))?;
        }
        w.reps[0].commit(ops).map_err(|e| Failure::new("commit-error", format!("session {si}: {e}")))?;
        for (t, (_, held)) in &objs {
            stored.insert(task_uuid(*t as usize), held.map.clone());
        }
        check_cached_depmap(&mut w, &stored, &format!("after session {si}"))?;
        // held object == stored object
        for (t, (task, _)) in &objs {
            let uuid = task_uuid(*t as usize);
            let reloaded = block_on(w.reps[0].replica.get_task(uuid)).map_err(api)?;
            crate::ensure!(
                reloaded.as_ref() == Some(task),
                "held-vs-stored",
                "session {si}: after commit the stored task {t} is {:?} but the caller holds {:?}",
                reloaded.as_ref().map(task_map),
                task_map(task)
            );
        }
        verify_stored(&mut w, &stored, &format!("after session {si}"))?;
        if kinds.len() >= 3 && status_transition {
            nontrivial = true;
        }
    }
    rep.nontrivial = nontrivial;
    Ok(rep)
}

/// tags, annotations, dependencies, UDAs, synthetic tags read back as the map says
fn read_back(task: &Task, m: &Map, what: &str) -> Result<(), Failure> {
    let tags: BTreeSet<String> = task.get_tags().filter(|t| t.is_user()).map(|t| t.to_string()).collect();
    let want_tags: BTreeSet<String> = m
        .keys()
        .filter_map(|k| k.strip_prefix("tag_"))
        .filter(|t| t.parse::<Tag>().map(|t| t.is_user()).unwrap_or(false))
        .map(String::from)
        .collect();
    crate::ensure!(tags == want_tags, "tags-read-back", "{what}: tags read {tags:?}, written {want_tags:?}");
    let anns: BTreeSet<(i64, String)> = task.get_annotations().map(|a| (a.entry.timestamp(), a.description)).collect();
    let want_anns: BTreeSet<(i64, String)> = m
        .iter()
        .filter_map(|(k, v)| k.strip_prefix("annotation_").and_then(|t| t.parse::<i64>().ok()).map(|t| (t, v.clone())))
        .collect();
    crate::ensure!(anns == want_anns, "annotations-read-back", "{what}: annotations read {anns:?}, written {want_anns:?}");
    let deps: BTreeSet<Uuid> = task.get_dependencies().collect();
    let want_deps: BTreeSet<Uuid> = m.keys().filter_map(|k| k.strip_prefix("dep_")).filter_map(|d| Uuid::parse_str(d).ok()).collect();
    crate::ensure!(deps == want_deps, "dependencies-read-back", "{what}: dependencies read {deps:?}, written {want_deps:?}");
    let udas: BTreeMap<String, String> = task.get_user_defined_attributes().map(|(k, v)| (k.to_string(), v.to_string())).collect();
    let want_udas: BTreeMap<String, String> = m.iter().filter(|(k, _)| !is_known_key(k)).map(|(k, v)| (k.clone(), v.clone())).collect();
    crate::ensure!(udas == want_udas, "udas-read-back", "{what}: UDAs read {udas:?}, written {want_udas:?}");
    for (k, v) in &want_udas {
        crate::ensure!(task.get_user_defined_attribute(k) == Some(v.as_str()), "udas-read-back", "{what}: get_user_defined_attribute({k:?})");
    }
    for k in RESERVED {
        crate::ensure!(task.get_user_defined_attribute(k).is_none(), "reserved-read-as-uda", "{what}: reserved key {k} readable as a UDA");
    }
    // status / times
    let st = m.get("status").map(|s| s.as_str());
    let tag = |n: &str| task.has_tag(&n.parse::<Tag>().unwrap());
    crate::ensure!(tag("PENDING") == matches!(st, None | Some("pending")), "synthetic-tag", "{what}: PENDING vs status {st:?}");
    crate::ensure!(tag("COMPLETED") == (st == Some("completed")), "synthetic-tag", "{what}: COMPLETED vs status {st:?}");
    crate::ensure!(tag("DELETED") == (st == Some("deleted")), "synthetic-tag", "{what}: DELETED vs status {st:?}");
    crate::ensure!(tag("ACTIVE") == m.contains_key("start"), "synthetic-tag", "{what}: ACTIVE vs start");
    let now = Utc::now().timestamp();
    if let Some(wv) = m.get("wait").and_then(|v| v.parse::<i64>().ok()) {
        if wv > now + 60 {
            crate::ensure!(tag("WAITING"), "synthetic-tag", "{what}: WAITING false with wait in the future");
        }
        if wv < now - 60 {
            crate::ensure!(!tag("WAITING"), "synthetic-tag", "{what}: WAITING true with wait in the past");
        }
    } else {
        crate::ensure!(!tag("WAITING"), "synthetic-tag", "{what}: WAITING true without a wait time");
    }
    for (k, g) in [("entry", task.get_entry()), ("wait", task.get_wait()), ("due", task.get_due()), ("modified", task.get_modified())] {
        let want = m.get(k).and_then(|v| v.parse::<i64>().ok());
        crate::ensure!(g.map(|d| d.timestamp()) == want, "time-read-back", "{what}: {k} read {g:?}, written {:?}", m.get(k));
    }
    crate::ensure!(task.get_description() == m.get("description").map(|s| s.as_str()).unwrap_or(""), "description-read-back", "{what}: description");
    crate::ensure!(task.get_priority() == m.get("priority").map(|s| s.as_str()).unwrap_or(""), "priority-read-back", "{what}: priority");
    Ok(())
}

/// Right after a commit the dependency map handed out without forcing a recalculation must be
/// what a recalculation gives at that moment (every commit drops the cached map).  This is
/// deliberately checked before any working-set rebuild: a rebuild or a sync does not refresh a
/// cached map, and the documentation of `dependency_map` allows that.
fn check_cached_depmap(w: &mut World, stored: &BTreeMap<Uuid, Map>, what: &str) -> Result<(), Failure> {
    let cached = block_on(w.reps[0].replica.dependency_map(false)).map_err(|e| Failure::new("api-error", format!("{e}")))?;
    let forced = block_on(w.reps[0].replica.dependency_map(true)).map_err(|e| Failure::new("api-error", format!("{e}")))?;
    for a in stored.keys().copied().chain((0..NT as usize).map(task_uuid)) {
        let c: BTreeSet<Uuid> = cached.dependencies(a).collect();
        let f: BTreeSet<Uuid> = forced.dependencies(a).collect();
        crate::ensure!(
            c == f,
            "stale-dependency-map",
            "{what}: right after the commit dependency_map(false) gives {c:?} for {a} but a recalculation gives {f:?}"
        );
    }
    Ok(())
}

fn verify_stored(w: &mut World, stored: &BTreeMap<Uuid, Map>, what: &str) -> Result<(), Failure> {
    let got = w.reps[0].tasks();
    crate::ensure!(
        got.0 == *stored,
        "stored-vs-model",
        "{what}: the replica stores\n  {:?}\nthe task model gives\n  {:?}",
        got.0,
        stored
    );
    // dependency map and BLOCKED/BLOCKING after a rebuild (so that the working set is exactly
    // the pending/recurring tasks)
    block_on(w.reps[0].replica.rebuild_working_set(false))
        .map_err(|e| Failure::new("api-error", format!("{e}")))?;
    let dm = block_on(w.reps[0].replica.dependency_map(true)).map_err(|e| Failure::new("api-error", format!("{e}")))?;
    let all = block_on(w.reps[0].replica.all_tasks()).map_err(|e| Failure::new("api-error", format!("{e}")))?;
    for (a, m) in stored {
        let st = m.get("status").map(|s| s.as_str());
        let in_ws = matches!(st, Some("pending") | Some("recurring"));
        let mut want = BTreeSet::new();
        let mut dont_care = false;
        if in_ws {
            for k in m.keys() {
                if let Some(b) = k.strip_prefix("dep_").and_then(|b| Uuid::parse_str(b).ok()) {
                    match stored.get(&b).map(|bm| bm.get("status").map(|s| s.as_str())) {
                        Some(Some("pending")) => {
                            want.insert(b);
                        }
                        // a target without any status property: the default status is pending,
                        // the dependency map looks at the stored value; not asserted
                        Some(None) => dont_care = true,
                        _ => {}
                    }
                }
            }
        }
        if dont_care {
            continue;
        }
        let got: BTreeSet<Uuid> = dm.dependencies(*a).collect();
        crate::ensure!(got == want, "dependency-map", "{what}: dependency_map gives {got:?} for {a}, the stored statuses and dep_ keys imply {want:?}");
        let t = &all[a];
        let blocked = t.has_tag(&"BLOCKED".parse::<Tag>().unwrap());
        let unblocked = t.has_tag(&"UNBLOCKED".parse::<Tag>().unwrap());
        crate::ensure!(blocked == !want.is_empty() && unblocked == want.is_empty(), "synthetic-tag", "{what}: BLOCKED={blocked} UNBLOCKED={unblocked} with dependencies {want:?}");
        read_back(t, m, what)?;
    }
    for (b, _) in stored {
        let dependents: BTreeSet<Uuid> = dm.dependents(*b).collect();
        let blocking = all[b].has_tag(&"BLOCKING".parse::<Tag>().unwrap());
        crate::ensure!(blocking == !dependents.is_empty(), "synthetic-tag", "{what}: BLOCKING={blocking} with dependents {dependents:?}");
    }
    Ok(())
}

pub fn run(e: &Engine) {
    e.assume("one Task/TaskData object per task per session (a second, stale object is a caller error)");
    e.assume("values set to 'the time of the call' are accepted inside the interval measured around the call and then adopted by the model");
    e.campaign(
        "mutator-sessions",
        "1-5 sessions on 4 tasks; a high-level session applies 1-8 generated Task mutators (all public mutators incl. deprecated ones, reserved UDA names, synthetic tags, timestamps of either sign), a low-level session uses TaskData::update/delete, 'again' repeats the previous mutator list; the task model predicts the exact Update operations (property, previous value, new value) of every call and the resulting map; held object == reloaded object after commit; tags/annotations/dependencies/UDAs/synthetic tags/dependency map read back from the model; non-trivial = a session with >= 3 distinct mutator kinds including a status transition",
        e.tier.pick(300_000, 6_000_000),
        strategy,
        |c| serde_json::to_value(c).unwrap(),
        check_case,
    );
}
