//! Shared generators and oracles of the sync family (C01, C02, C03, C04, C12, C14, C20).

use crate::engine::model::{parse_version, task_uuid, ts, Model, MOp};
use crate::engine::mserver::{HandleCtl, ModelServer, Req};
use crate::engine::rep::Rep;
use crate::engine::Failure;
use proptest::prelude::*;
use serde::{Deserialize, Serialize};
use std::collections::BTreeSet;
use taskchampion::server::Server;
use taskchampion::{Operation, Uuid};

pub const PROPS: [&str; 3] = ["p", "q", "status"];
pub const VALUES: [&str; 3] = ["x", "y", "z"];

/// What a user of one replica does, before it is made into valid operations against that
/// replica's current state (the storage chapter says a replica must not create invalid
/// operations, and every real caller goes through `TaskData`, which cannot).
#[derive(Clone, Debug, PartialEq, Eq, Hash, Serialize, Deserialize)]
pub enum Intent {
    /// create the task if it does not exist
    Create { t: u8 },
    /// delete the task if it exists
    Delete { t: u8 },
    /// set (v>0) or remove (v==0) a property; creates the task first if needed.
    /// v in 1..=3 picks from a shared pool (equal values on different replicas are possible),
    /// v>=4 yields a value unique to this replica and operation.
    Set { t: u8, p: u8, v: u8, ts: i8 },
    /// create-delete-create of one task within one commit
    Cdc { t: u8, ts: i8 },
    /// an undo point (never leaves the replica)
    Undo,
    /// operations recorded without regard to the local state (a caller using TaskData::create on
    /// an existing task, or a stale TaskData after a delete); the library tolerates them
    RawCreate { t: u8 },
    RawDelete { t: u8 },
    RawSet { t: u8, p: u8, v: u8, ts: i8 },
}

#[derive(Clone, Debug, PartialEq, Eq, Hash, Serialize, Deserialize)]
pub enum Action {
    Commit { r: u8, intents: Vec<Intent> },
    Sync { r: u8 },
    /// pending changes above the 1 000 000-byte batching threshold: `pre`, then `n` updates of
    /// ~`kb` kB each separated by `mid`, then `post`
    Big {
        r: u8,
        t: u8,
        n: u8,
        kb: u16,
        pre: Vec<Intent>,
        mid: Vec<Intent>,
        post: Vec<Intent>,
    },
}

#[derive(Clone, Debug, PartialEq, Eq, Hash, Serialize, Deserialize)]
pub struct History {
    pub replicas: u8,
    pub actions: Vec<Action>,
}

pub fn intent_strategy(tasks: u8) -> impl Strategy<Value = Intent> + Clone {
    intent_strategy_ext(tasks, 3, 6)
}

/// As `intent_strategy_ext`, plus one extra task (index `tasks`) that is never deleted in the
/// history and on which redundant creations are recorded, as a caller using
/// `TaskData::create` on a task that already exists would.  Other operations that are invalid
/// against the local state (updates or deletes of missing tasks, redundant creations of tasks
/// that are deleted elsewhere) are outside the synchronization model: storage.md says a replica
/// must not create them, and with them the unchanged code does not converge.
pub fn intent_strategy_raw(tasks: u8, pmax: u8, vmax: u8) -> BoxedStrategy<Intent> {
    prop_oneof![
        30 => intent_strategy_ext(tasks, pmax, vmax),
        3 => (0u8..pmax, 0u8..vmax, -2i8..=2).prop_map(move |(p, v, ts)| Intent::Set { t: tasks, p, v, ts }),
        2 => Just(Intent::RawCreate { t: tasks }),
    ]
    .boxed()
}

/// `pmax` > 3 and `vmax` > 4 reach into a case-supplied string table (see `Realizer::strings`).
pub fn intent_strategy_ext(tasks: u8, pmax: u8, vmax: u8) -> impl Strategy<Value = Intent> + Clone {
    prop_oneof![
        2 => (0..tasks).prop_map(|t| Intent::Create { t }),
        2 => (0..tasks).prop_map(|t| Intent::Delete { t }),
        10 => (0..tasks, 0u8..pmax, 0u8..vmax, -2i8..=2).prop_map(|(t, p, v, ts)| Intent::Set { t, p, v, ts }),
        1 => (0..tasks, -2i8..=2).prop_map(|(t, ts)| Intent::Cdc { t, ts }),
        1 => Just(Intent::Undo),
    ]
}

pub fn action_strategy(replicas: u8, tasks: u8, big_weight: u32) -> BoxedStrategy<Action> {
    action_strategy_ext(replicas, tasks, big_weight, 3, 6)
}

pub fn action_strategy_ext(
    replicas: u8,
    tasks: u8,
    big_weight: u32,
    pmax: u8,
    vmax: u8,
) -> BoxedStrategy<Action> {
    let intents = proptest::collection::vec(intent_strategy_raw(tasks, pmax, vmax), 1..=4);
    let few = proptest::collection::vec(intent_strategy_raw(tasks, pmax, vmax), 0..=2);
    if big_weight == 0 {
        prop_oneof![
            5 => (0..replicas, intents).prop_map(|(r, intents)| Action::Commit { r, intents }),
            4 => (0..replicas).prop_map(|r| Action::Sync { r }),
        ]
        .boxed()
    } else {
        prop_oneof![
            5 => (0..replicas, intents).prop_map(|(r, intents)| Action::Commit { r, intents }),
            4 => (0..replicas).prop_map(|r| Action::Sync { r }),
            big_weight => (0..replicas, 0..tasks, 2u8..=3, 340u16..=700, few.clone(), few.clone(), few)
                .prop_map(|(r, t, n, kb, pre, mid, post)| Action::Big { r, t, n, kb, pre, mid, post }),
        ]
        .boxed()
    }
}

pub fn history_strategy(
    max_replicas: u8,
    tasks: u8,
    max_actions: usize,
    big_weight: u32,
) -> BoxedStrategy<History> {
    (2..=max_replicas)
        .prop_flat_map(move |replicas| {
            proptest::collection::vec(action_strategy(replicas, tasks, big_weight), 0..=max_actions)
                .prop_map(move |actions| History { replicas, actions })
        })
        .boxed()
}

/// Turns intents into valid operations against a replica's current tasks, the way
/// `TaskData::{create,update,delete}` would record them (old values included), but with
/// generated timestamps.
pub struct Realizer {
    pub replica: usize,
    pub counter: u32,
    /// optional table of generated strings: property index >= 3 and value index >= 4 pick from it
    pub strings: Vec<String>,
    /// record, in about a third of the updates, the new value as the previous value: what a
    /// caller holding a stale `TaskData` records when it writes back the value it believes the
    /// property has.  The previous value is local bookkeeping for undo; nothing about sync may
    /// depend on it.
    pub stale_old: bool,
}

impl Realizer {
    pub fn new(replica: usize) -> Self {
        Realizer {
            replica,
            counter: 0,
            strings: vec![],
            stale_old: false,
        }
    }

    pub fn value(&mut self, v: u8) -> Option<String> {
        match v {
            0 => None,
            1..=3 => Some(VALUES[(v - 1) as usize].to_string()),
            _ if !self.strings.is_empty() => {
                Some(self.strings[(v as usize - 4) % self.strings.len()].clone())
            }
            // the empty string is a value like any other (not a removal)
            5 => Some(String::new()),
            _ => {
                self.counter += 1;
                Some(format!("u{}.{}", self.replica, self.counter))
            }
        }
    }

    pub fn prop(&self, p: u8) -> String {
        if (p as usize) < 3 || self.strings.is_empty() {
            PROPS[p as usize % 3].to_string()
        } else {
            self.strings[(p as usize - 3) % self.strings.len()].clone()
        }
    }

    fn set(
        &mut self,
        local: &mut Model,
        uuid: Uuid,
        prop: &str,
        value: Option<String>,
        tsv: i8,
        out: &mut Vec<Operation>,
    ) {
        if !local.0.contains_key(&uuid) {
            out.push(Operation::Create { uuid });
            local.apply(&MOp::Create(uuid));
        }
        // the "status" property takes real status values, so that the working set is exercised
        let value = if prop == "status" {
            value.map(|v| match v.as_str() {
                "x" => "pending".to_string(),
                "y" => "completed".to_string(),
                "z" => "recurring".to_string(),
                _ => v,
            })
        } else {
            value
        };
        let mut old_value = local.0[&uuid].get(prop).cloned();
        if self.stale_old {
            let h = (tsv as i32 as u32).wrapping_mul(31) ^ (uuid.as_u128() as u32) ^ (prop.len() as u32 * 7) ^ value.as_ref().map(|v| v.len() as u32).unwrap_or(5);
            if h % 3 == 0 {
                old_value = value.clone();
            }
        }
        out.push(Operation::Update {
            uuid,
            property: prop.to_string(),
            old_value,
            value: value.clone(),
            timestamp: ts(tsv as i64),
        });
        local.apply(&MOp::Update(uuid, prop.to_string(), value, String::new()));
    }

    pub fn realize(&mut self, intents: &[Intent], local: &mut Model, out: &mut Vec<Operation>) {
        for i in intents {
            match i {
                Intent::Create { t } => {
                    let uuid = task_uuid(*t as usize);
                    if !local.0.contains_key(&uuid) {
                        out.push(Operation::Create { uuid });
                        local.apply(&MOp::Create(uuid));
                    }
                }
                Intent::Delete { t } => {
                    let uuid = task_uuid(*t as usize);
                    if let Some(old) = local.0.get(&uuid) {
                        out.push(Operation::Delete {
                            uuid,
                            old_task: old.iter().map(|(k, v)| (k.clone(), v.clone())).collect(),
                        });
                        local.apply(&MOp::Delete(uuid));
                    }
                }
                Intent::Set { t, p, v, ts } => {
                    let uuid = task_uuid(*t as usize);
                    let value = self.value(*v);
                    let prop = self.prop(*p);
                    self.set(local, uuid, &prop, value, *ts, out);
                }
                Intent::Cdc { t, ts } => {
                    let uuid = task_uuid(*t as usize);
                    let v = self.value(9);
                    self.set(local, uuid, "p", v, *ts, out);
                    let old = local.0[&uuid].clone();
                    out.push(Operation::Delete {
                        uuid,
                        old_task: old.into_iter().collect(),
                    });
                    local.apply(&MOp::Delete(uuid));
                    out.push(Operation::Create { uuid });
                    local.apply(&MOp::Create(uuid));
                }
                Intent::Undo => out.push(Operation::UndoPoint),
                Intent::RawCreate { t } => {
                    let uuid = task_uuid(*t as usize);
                    out.push(Operation::Create { uuid });
                    local.apply(&MOp::Create(uuid));
                }
                Intent::RawDelete { t } => {
                    let uuid = task_uuid(*t as usize);
                    let old_task = local
                        .0
                        .get(&uuid)
                        .map(|m| m.iter().map(|(k, v)| (k.clone(), v.clone())).collect())
                        .unwrap_or_default();
                    out.push(Operation::Delete { uuid, old_task });
                    local.apply(&MOp::Delete(uuid));
                }
                Intent::RawSet { t, p, v, ts: tsv } => {
                    let uuid = task_uuid(*t as usize);
                    let value = self.value(*v);
                    let prop = self.prop(*p);
                    let old_value = local.0.get(&uuid).and_then(|m| m.get(&prop)).cloned();
                    out.push(Operation::Update {
                        uuid,
                        property: prop.clone(),
                        old_value,
                        value: value.clone(),
                        timestamp: ts(*tsv as i64),
                    });
                    local.apply(&MOp::Update(uuid, prop, value, String::new()));
                }
            }
        }
    }

    /// operations of a `Big` action
    pub fn realize_big(
        &mut self,
        t: u8,
        n: u8,
        kb: u16,
        pre: &[Intent],
        mid: &[Intent],
        post: &[Intent],
        local: &mut Model,
        out: &mut Vec<Operation>,
    ) {
        self.realize(pre, local, out);
        let uuid = task_uuid(t as usize);
        for k in 0..n {
            self.counter += 1;
            let head = format!("big{}.{}:", self.replica, self.counter);
            let mut value = String::with_capacity(kb as usize * 1000 + head.len());
            value.push_str(&head);
            value.extend(std::iter::repeat('b').take(kb as usize * 1000));
            self.set(local, uuid, &format!("big{k}"), Some(value), 0, out);
            if k + 1 < n {
                self.realize(mid, local, out);
            }
        }
        self.realize(post, local, out);
    }
}

/// The set of replicas, the model server and per-replica bookkeeping shared by the sync-family
/// checks.
pub struct World {
    pub server: ModelServer,
    pub reps: Vec<Rep>,
    pub handles: Vec<Box<dyn Server>>,
    pub ctls: Vec<HandleCtl>,
    pub realizers: Vec<Realizer>,
    /// directories of SQLite-backed replicas
    pub dirs: Vec<Option<std::sync::Arc<tempfile::TempDir>>>,
}

pub fn pool() -> Vec<Uuid> {
    (0..6).map(task_uuid).collect()
}

impl World {
    pub fn new(replicas: usize) -> World {
        let server = ModelServer::new();
        let mut reps = vec![];
        let mut handles = vec![];
        let mut ctls = vec![];
        let mut realizers = vec![];
        for r in 0..replicas {
            reps.push(Rep::mem(&pool()));
            let (h, c) = server.handle(r);
            handles.push(h);
            ctls.push(c);
            realizers.push(Realizer::new(r));
        }
        World {
            server,
            reps,
            handles,
            ctls,
            realizers,
            dirs: vec![None; replicas],
        }
    }

    /// Put replica r on a fresh SQLite directory (call before it is used).
    pub fn make_sqlite(&mut self, r: usize) -> Result<(), Failure> {
        let dir = tempfile::TempDir::new()
            .map_err(|e| Failure::new("infra", format!("cannot create temp dir: {e}")))?;
        self.reps[r] = Rep::sqlite(dir.path(), &pool())
            .map_err(|e| Failure::new("sqlite-open", format!("cannot open SQLite storage: {e}")))?;
        self.dirs[r] = Some(std::sync::Arc::new(dir));
        Ok(())
    }

    /// Close and reopen a SQLite-backed replica ("restart"); no-op for in-memory ones.
    pub fn reopen(&mut self, r: usize) -> Result<(), Failure> {
        if let Some(dir) = self.dirs[r].clone() {
            // drop the old handle first: this joins the storage thread and closes the connection
            self.reps[r] = Rep::mem(&pool());
            self.reps[r] = Rep::sqlite(dir.path(), &pool())
                .map_err(|e| Failure::new("sqlite-reopen", format!("cannot reopen SQLite storage: {e}")))?;
        }
        Ok(())
    }

    pub fn add_replica(&mut self, rep: Rep) -> usize {
        let r = self.reps.len();
        self.reps.push(rep);
        let (h, c) = self.server.handle(r);
        self.handles.push(h);
        self.ctls.push(c);
        self.realizers.push(Realizer::new(r));
        self.dirs.push(None);
        r
    }

    pub fn ops_for(&mut self, r: usize, intents: &[Intent]) -> Vec<Operation> {
        let mut local = self.reps[r].tasks();
        let mut out = vec![];
        self.realizers[r].realize(intents, &mut local, &mut out);
        out
    }

    pub fn commit(&mut self, r: usize, intents: &[Intent]) -> Result<Vec<Operation>, Failure> {
        let ops = self.ops_for(r, intents);
        self.reps[r]
            .commit(ops.clone())
            .map_err(|e| Failure::new("commit-error", format!("commit on replica {r} failed: {e}")))?;
        Ok(ops)
    }

    pub fn sync(&mut self, r: usize) -> Result<(), taskchampion::Error> {
        let World { reps, handles, .. } = self;
        reps[r].sync(&mut handles[r], false)
    }

    /// Oracle (iii): tasks == replay(chain up to the stored base version) (+) stored unsynced
    /// operations, read through the observing storage.
    pub fn check_replica_invariant(&mut self, r: usize, when: &str) -> Result<(), Failure> {
        let dump = self.reps[r].dump();
        let tasks = self.reps[r].tasks();
        crate::ensure!(
            tasks == dump.tasks,
            "obs-mismatch",
            "{when}: replica {r}: tasks read through the API differ from those seen at commit"
        );
        let st = self.server.state.borrow();
        let Some(segs) = st.segments_upto(dump.base) else {
            crate::fail!(
                "invariant-base-unknown",
                "{when}: replica {r} has base version {} which the server never issued",
                dump.base
            );
        };
        let mut m = Model::new();
        for s in segs {
            let ops = parse_version(s).map_err(|e| Failure::new("bad-version", e))?;
            m.apply_all(&ops);
        }
        for op in &dump.unsynced {
            m.apply_operation(op);
        }
        crate::ensure!(
            m == tasks,
            "replica-invariant",
            "{when}: replica {r} violates the replica invariant: chain replay up to base {} plus {} unsynced operations gives\n  {}\nbut the replica holds\n  {}",
            dump.base,
            dump.unsynced.len(),
            m.render(),
            tasks.render()
        );
        Ok(())
    }

    /// `Replica::sync` rebuilds the working set without renumbering: afterwards it lists exactly
    /// the pending / recurring tasks, each once.
    pub fn check_working_set_after_sync(&mut self, r: usize, when: &str) -> Result<(), Failure> {
        let ws = self.reps[r].working_set();
        let tasks = self.reps[r].tasks();
        let want: BTreeSet<Uuid> = tasks
            .0
            .iter()
            .filter(|(_, p)| matches!(p.get("status").map(|s| s.as_str()), Some("pending") | Some("recurring")))
            .map(|(u, _)| *u)
            .collect();
        let got: Vec<Uuid> = ws.iter().flatten().copied().collect();
        let got_set: BTreeSet<Uuid> = got.iter().copied().collect();
        crate::ensure!(
            got.len() == got_set.len() && got_set == want,
            "working-set-after-sync",
            "{when}: after a successful sync the working set of replica {r} is {ws:?} but the pending/recurring tasks are {want:?}"
        );
        Ok(())
    }

    /// Sync every replica round-robin twice, then require: nothing left to send, every base
    /// version is the server's latest, all replicas equal, and equal to the chain replay.
    pub fn quiesce_and_check(&mut self) -> Result<Model, Failure> {
        for round in 0..2 {
            for r in 0..self.reps.len() {
                self.sync(r).map_err(|e| {
                    Failure::new(
                        "sync-error",
                        format!("quiesce round {round}: sync of replica {r} failed: {e}"),
                    )
                })?;
                self.check_replica_invariant(r, &format!("quiesce round {round}"))?;
                self.check_working_set_after_sync(r, &format!("quiesce round {round}"))?;
            }
        }
        self.check_converged()
    }

    pub fn check_converged(&mut self) -> Result<Model, Failure> {
        let (latest, replay) = {
            let st = self.server.state.borrow();
            let mut m = Model::new();
            for s in st.all_segments() {
                let ops = parse_version(s).map_err(|e| Failure::new("bad-version", e))?;
                m.apply_all(&ops);
            }
            (st.latest(), m)
        };
        for r in 0..self.reps.len() {
            let n = self.reps[r].num_local();
            crate::ensure!(
                n == 0,
                "quiesce-pending",
                "after quiescence replica {r} still has {n} local operations"
            );
            let d = self.reps[r].dump();
            crate::ensure!(
                d.base == latest,
                "quiesce-base",
                "after quiescence replica {r} has base {} but the server's latest is {latest}",
                d.base
            );
            let t = self.reps[r].tasks();
            crate::ensure!(
                t == replay,
                "diverged-from-chain",
                "after quiescence replica {r} holds\n  {}\nbut replaying the server's {} versions over the empty set gives\n  {}",
                t.render(),
                self.server.state.borrow().versions.len(),
                replay.render()
            );
        }
        Ok(replay)
    }
}

/// uuids touched by a list of operations
pub fn touched(ops: &[Operation]) -> BTreeSet<Uuid> {
    ops.iter().filter_map(|o| o.get_uuid()).collect()
}

/// Summary of what one replica's sync did at the server, from the request log.
#[derive(Default, Debug, Clone)]
pub struct SyncStats {
    pub pulled: usize,
    pub pushed: usize,
    pub rejected: usize,
    pub snapshots: usize,
}

pub fn sync_stats(log: &[Req], client: usize) -> SyncStats {
    let mut s = SyncStats::default();
    for r in log {
        match r {
            Req::GetChild {
                client: c,
                reply: Some(_),
                ..
            } if *c == client => s.pulled += 1,
            Req::AddVersion {
                client: c,
                accepted,
                ..
            } if *c == client => match accepted {
                Ok(_) => s.pushed += 1,
                Err(_) => s.rejected += 1,
            },
            Req::AddSnapshot { client: c, .. } if *c == client => s.snapshots += 1,
            _ => {}
        }
    }
    s
}

pub fn render_intent(i: &Intent) -> String {
    match i {
        Intent::Create { t } => format!("create(t{t})"),
        Intent::Delete { t } => format!("delete(t{t})"),
        Intent::Set { t, p, v, ts } => {
            let val = match v {
                0 => "∅".to_string(),
                1..=3 => VALUES[(*v - 1) as usize].to_string(),
                _ => "unique".to_string(),
            };
            let prop = if (*p as usize) < 3 {
                PROPS[*p as usize].to_string()
            } else {
                format!("s{}", p - 3)
            };
            let val = if *v >= 4 { format!("{val}{}", v - 4) } else { val };
            format!("t{t}.{prop}={val}@{ts}")
        }
        Intent::Cdc { t, ts } => format!("create-delete-create(t{t})@{ts}"),
        Intent::Undo => "undo-point".to_string(),
        Intent::RawCreate { t } => format!("raw-create(t{t})"),
        Intent::RawDelete { t } => format!("raw-delete(t{t})"),
        Intent::RawSet { t, p, v, ts } => format!("raw-set(t{t}.{}:{v}@{ts})", PROPS[*p as usize % 3]),
    }
}

pub fn render_action(a: &Action) -> String {
    match a {
        Action::Commit { r, intents } => format!(
            "R{r}: commit [{}]",
            intents.iter().map(render_intent).collect::<Vec<_>>().join(", ")
        ),
        Action::Sync { r } => format!("R{r}: sync"),
        Action::Big {
            r,
            t,
            n,
            kb,
            pre,
            mid,
            post,
        } => format!(
            "R{r}: commit [{}] + {n} x {kb}kB updates of t{t} separated by [{}] + [{}]",
            pre.iter().map(render_intent).collect::<Vec<_>>().join(", "),
            mid.iter().map(render_intent).collect::<Vec<_>>().join(", "),
            post.iter().map(render_intent).collect::<Vec<_>>().join(", ")
        ),
    }
}

pub fn render_history(h: &History) -> serde_json::Value {
    serde_json::json!({
        "replicas": h.replicas,
        "actions": h.actions.iter().map(render_action).collect::<Vec<_>>(),
    })
}

#[derive(Default, Debug, Clone)]
pub struct RunFlags {
    pub concurrent_same_task: bool,
    pub pull_and_push: bool,
    seen_sets: std::collections::BTreeMap<(u8, u8), Vec<(usize, i8)>>,
}

/// Interpret a list of actions with strictly sequential syncs, checking the replica invariant
/// after every commit and every sync.
pub fn run_actions(
    w: &mut World,
    actions: &[Action],
    rep: &mut crate::engine::CaseReport,
    flags: &mut RunFlags,
) -> Result<(), Failure> {
    let n = w.reps.len();
    for (ai, a) in actions.iter().enumerate() {
        match a {
            Action::Commit { r, intents } => {
                let r = *r as usize % n;
                for i in intents {
                    match i {
                        Intent::Set { t, p, ts, .. } => {
                            let e = flags.seen_sets.entry((*t, *p)).or_default();
                            if e.iter().any(|(rr, tt)| *rr != r && tt == ts) {
                                rep.class("tie");
                            }
                            if e.iter().any(|(rr, tt)| *rr == r && tt > ts) {
                                rep.class("decreasing-timestamp");
                            }
                            e.push((r, *ts));
                        }
                        Intent::Cdc { .. } => rep.class("create-delete-create"),
                        _ => {}
                    }
                }
                w.commit(r, intents)?;
                w.check_replica_invariant(r, &format!("after action {ai} (commit)"))?;
            }
            Action::Big {
                r,
                t,
                n: nb,
                kb,
                pre,
                mid,
                post,
            } => {
                let r = *r as usize % n;
                let mut local = w.reps[r].tasks();
                let mut ops = vec![];
                w.realizers[r].realize_big(*t, *nb, *kb, pre, mid, post, &mut local, &mut ops);
                w.reps[r].commit(ops).map_err(|e| {
                    Failure::new("commit-error", format!("big commit on replica {r} failed: {e}"))
                })?;
                rep.class("big-commit");
            }
            Action::Sync { r } => {
                let r = *r as usize % n;
                let log_start = w.server.state.borrow().log.len();
                w.sync(r).map_err(|e| {
                    Failure::new(
                        "sync-error",
                        format!("action {ai}: sync of replica {r} failed: {e}"),
                    )
                })?;
                let stats = {
                    let st = w.server.state.borrow();
                    sync_stats(&st.log[log_start..], r)
                };
                if stats.pulled > 0 && stats.pushed > 0 {
                    flags.pull_and_push = true;
                    rep.class("sync-pulled-and-pushed");
                }
                if stats.pulled == 0 && stats.pushed == 0 {
                    rep.class("empty-sync");
                }
                if stats.pushed >= 2 {
                    rep.class("multi-batch");
                    if stats.pulled > 0 {
                        rep.class("multi-batch-with-concurrent-remote-version");
                    }
                }
                w.check_replica_invariant(r, &format!("after action {ai} (sync of replica {r})"))?;
                w.check_working_set_after_sync(r, &format!("after action {ai} (sync of replica {r})"))?;
            }
        }
        // two replicas hold unsynced operations on the same task
        if !flags.concurrent_same_task {
            let touched: Vec<_> = (0..n)
                .map(|r| touched(&w.reps[r].dump().unsynced))
                .collect();
            'outer: for i in 0..n {
                for j in i + 1..n {
                    if touched[i].intersection(&touched[j]).next().is_some() {
                        flags.concurrent_same_task = true;
                        rep.class("concurrent-edits-of-one-task");
                        break 'outer;
                    }
                }
            }
        }
    }
    Ok(())
}
