//! C03 — no lost updates; documented conflict winners, independent of sync order.

use super::common::*;
use crate::engine::model::{task_uuid, Model, MOp};
use crate::engine::{CaseReport, CheckResult, Engine, Failure};
use proptest::prelude::*;
use serde::{Deserialize, Serialize};
use std::collections::{BTreeMap, BTreeSet};
use taskchampion::{Operation, Uuid};

/// A conflict scenario: a base state shared by all replicas, concurrent edits per replica, and
/// optionally a causally later edit by one replica.
#[derive(Clone, Debug, PartialEq, Eq, Hash, Serialize, Deserialize)]
pub struct Scenario {
    /// 0 = shared task absent, 1 = present and empty, 2 = present with p and q set
    pub base: u8,
    /// concurrent edits, one list per replica (2 or 3 replicas)
    pub edits: Vec<Vec<Intent>>,
    /// (replica, edit) made after everything has been synchronized, i.e. after seeing all
    /// other changes; its timestamp is older than every other one
    pub followup: Option<(u8, Intent)>,
}

fn perms(n: usize) -> Vec<Vec<usize>> {
    fn rec(cur: &mut Vec<usize>, used: &mut Vec<bool>, out: &mut Vec<Vec<usize>>) {
        if cur.len() == used.len() {
            out.push(cur.clone());
            return;
        }
        for i in 0..used.len() {
            if !used[i] {
                used[i] = true;
                cur.push(i);
                rec(cur, used, out);
                cur.pop();
                used[i] = false;
            }
        }
    }
    let mut out = vec![];
    rec(&mut vec![], &mut vec![false; n], &mut out);
    out
}

struct RunOut {
    s1: Model,
    fin: Model,
    realized: Vec<Vec<Operation>>,
    base_model: Model,
}

fn run_order(sc: &Scenario, order: &[usize]) -> Result<RunOut, Failure> {
    let n = sc.edits.len();
    let mut w = World::new(n);
    // base state, created on replica 0 and synchronized to everybody
    let mut base_intents = vec![Intent::Create { t: 1 }];
    match sc.base {
        0 => {}
        1 => base_intents.push(Intent::Create { t: 0 }),
        _ => {
            base_intents.push(Intent::Set { t: 0, p: 0, v: 3, ts: -1 });
            base_intents.push(Intent::Set { t: 0, p: 1, v: 3, ts: -1 });
        }
    }
    w.commit(0, &base_intents)?;
    for r in 0..n {
        w.sync(r)
            .map_err(|e| Failure::new("sync-error", format!("base sync failed: {e}")))?;
    }
    let base_model = w.reps[0].tasks();
    // concurrent edits
    let mut realized = vec![];
    for r in 0..n {
        realized.push(w.commit(r, &sc.edits[r])?);
    }
    for &r in order {
        w.sync(r)
            .map_err(|e| Failure::new("sync-error", format!("sync of replica {r} failed: {e}")))?;
        w.check_replica_invariant(r, "after first sync")?;
    }
    let s1 = w.quiesce_and_check()?;
    let mut fin = s1.clone();
    if let Some((r, intent)) = &sc.followup {
        let r = *r as usize % n;
        let ops = w.commit(r, std::slice::from_ref(intent))?;
        let mut expect = s1.clone();
        for op in &ops {
            expect.apply_operation(op);
        }
        fin = w.quiesce_and_check()?;
        crate::ensure!(
            fin == expect,
            "causal-override",
            "a change made by replica {r} after it had seen all other changes ({}) did not override them: expected\n  {}\ngot\n  {}",
            render_intent(intent),
            expect.render(),
            fin.render()
        );
    }
    Ok(RunOut {
        s1,
        fin,
        realized,
        base_model,
    })
}

/// The rule oracle, written from sync-model.md and the statement of C03.  It only speaks where
/// the rules determine the outcome; `None` for a (task, property) means "not determined".
fn rule_oracle(
    base: &Model,
    realized: &[Vec<Operation>],
    s1: &Model,
    rep: &mut CaseReport,
) -> Result<(), Failure> {
    let mut tasks: BTreeSet<Uuid> = base.0.keys().copied().collect();
    for ops in realized {
        tasks.extend(ops.iter().filter_map(|o| o.get_uuid()));
    }
    for t in tasks {
        let mut creates = 0;
        let mut deletes = 0;
        // (replica, property) -> updates in order
        let mut upd: BTreeMap<String, BTreeMap<usize, Vec<(Option<String>, chrono::DateTime<chrono::Utc>)>>> =
            BTreeMap::new();
        let mut editors = BTreeSet::new();
        for (r, ops) in realized.iter().enumerate() {
            for op in ops {
                if op.get_uuid() != Some(t) {
                    continue;
                }
                editors.insert(r);
                match op {
                    Operation::Create { .. } => creates += 1,
                    Operation::Delete { .. } => deletes += 1,
                    Operation::Update {
                        property,
                        value,
                        timestamp,
                        ..
                    } => upd
                        .entry(property.clone())
                        .or_default()
                        .entry(r)
                        .or_default()
                        .push((value.clone(), *timestamp)),
                    Operation::UndoPoint => {}
                }
            }
        }
        let in_base = base.0.contains_key(&t);
        if deletes > 0 && creates > 0 {
            // One shape is covered by the rules: the task did not exist, every editing replica
            // created it (concurrent creations, all kept), none re-created it, and some replica
            // deleted it as its last change to it - a deletion concurrent with the other
            // replicas' updates, which wins.
            let shapes: Vec<Vec<&Operation>> = realized
                .iter()
                .map(|ops| ops.iter().filter(|o| o.get_uuid() == Some(t) && !o.is_undo_point()).collect::<Vec<_>>())
                .filter(|s| !s.is_empty())
                .collect();
            let simple = !in_base
                && shapes.iter().all(|s| {
                    let c = s.iter().filter(|o| matches!(o, Operation::Create { .. })).count();
                    let d = s.iter().filter(|o| matches!(o, Operation::Delete { .. })).count();
                    matches!(s[0], Operation::Create { .. })
                        && c == 1
                        && (d == 0 || (d == 1 && matches!(s[s.len() - 1], Operation::Delete { .. })))
                });
            if simple {
                rep.class("conflict:created-everywhere-deleted-on-one");
                crate::ensure!(
                    !s1.0.contains_key(&t),
                    "delete-did-not-win",
                    "task {t} was created concurrently on {} replicas and deleted again on one of them, but exists after synchronization: {:?}",
                    shapes.len(),
                    s1.0.get(&t)
                );
                continue;
            }
            // other mixtures of deletion and (re-)creation in one scenario: not covered by the rules
            rep.class("rule-silent:create-and-delete");
            continue;
        }
        if deletes > 0 {
            // a concurrent deletion of the task wins over updates to it
            if editors.len() >= 2 {
                rep.class("conflict:delete-vs-other");
            }
            crate::ensure!(
                !s1.0.contains_key(&t),
                "delete-did-not-win",
                "task {t} was deleted on one replica (concurrently with {} other editing replicas) but exists after synchronization: {:?}",
                editors.len() - 1,
                s1.0.get(&t)
            );
            continue;
        }
        // no deletes: the task must exist iff it was in the base or somebody created it
        let should_exist = in_base || creates > 0;
        crate::ensure!(
            s1.0.contains_key(&t) == should_exist,
            "task-presence",
            "task {t}: expected present={should_exist} after synchronization"
        );
        if !should_exist {
            continue;
        }
        if creates >= 2 {
            rep.class("conflict:create-vs-create");
        }
        let got = &s1.0[&t];
        let mut props: BTreeSet<String> = upd.keys().cloned().collect();
        if let Some(b) = base.0.get(&t) {
            props.extend(b.keys().cloned());
        }
        for p in props {
            let written: Vec<Option<String>> = upd
                .get(&p)
                .map(|m| m.values().flatten().map(|(v, _)| v.clone()).collect())
                .unwrap_or_default();
            let base_val = base.0.get(&t).and_then(|b| b.get(&p)).cloned();
            let got_val = got.get(&p).cloned();
            // always: the surviving value is one of the written values (or the base value)
            crate::ensure!(
                if written.is_empty() { got_val == base_val } else { written.contains(&got_val) },
                "invented-value",
                "task {t} property {p}: value {got_val:?} after synchronization was never written (written: {written:?}, base {base_val:?})"
            );
            let Some(per_rep) = upd.get(&p) else {
                // nobody touched it: unchanged
                crate::ensure!(
                    got_val == base_val,
                    "untouched-property-changed",
                    "task {t} property {p} was not edited but changed from {base_val:?} to {got_val:?}"
                );
                continue;
            };
            if per_rep.values().any(|v| v.len() > 1) {
                rep.class("rule-silent:several-updates-of-one-property-on-one-replica");
                continue;
            }
            let cands: Vec<(usize, Option<String>, chrono::DateTime<chrono::Utc>)> = per_rep
                .iter()
                .map(|(r, v)| (*r, v[0].0.clone(), v[0].1))
                .collect();
            if cands.len() >= 2 {
                rep.class("conflict:update-vs-update-same-property");
            }
            let max_ts = cands.iter().map(|c| c.2).max().unwrap();
            let winners: BTreeSet<Option<String>> = cands
                .iter()
                .filter(|c| c.2 == max_ts)
                .map(|c| c.1.clone())
                .collect();
            if winners.len() > 1 {
                rep.class("rule-silent:equal-timestamps-different-values");
                continue;
            }
            if cands.len() >= 2 {
                if cands.iter().filter(|c| c.2 == max_ts).count() >= 2 {
                    rep.class("conflict:equal-timestamp-equal-value");
                } else {
                    rep.class("conflict:later-timestamp-wins");
                }
            }
            let want = winners.into_iter().next().unwrap();
            crate::ensure!(
                got_val == want,
                "wrong-winner",
                "task {t} property {p}: concurrent updates {cands:?}; the documented rule (later timestamp wins; different properties are all kept) gives {want:?} but the replicas hold {got_val:?}"
            );
        }
    }
    Ok(())
}

pub fn check_scenario(sc: &Scenario) -> CheckResult {
    let n = sc.edits.len();
    let mut rep = CaseReport::default();
    let orders = perms(n);
    let mut first: Option<(Vec<usize>, Model)> = None;
    for order in &orders {
        let out = run_order(sc, order)?;
        if first.is_none() {
            rule_oracle(&out.base_model, &out.realized, &out.s1, &mut rep)?;
        } else {
            // the rule oracle must hold in every order too (cheap, and localises failures)
            let mut scratch = CaseReport::default();
            rule_oracle(&out.base_model, &out.realized, &out.s1, &mut scratch)?;
        }
        match &first {
            None => first = Some((order.clone(), out.fin)),
            Some((o0, m0)) => {
                crate::ensure!(
                    *m0 == out.fin,
                    "order-dependent",
                    "the outcome depends on the order in which the replicas synchronize: order {o0:?} gives\n  {}\norder {order:?} gives\n  {}",
                    m0.render(),
                    out.fin.render()
                );
            }
        }
    }
    if sc.followup.is_some() {
        rep.class("causal-followup-with-older-timestamp");
    }
    rep.nontrivial = rep.classes.iter().any(|c| c.starts_with("conflict:") || c.starts_with("rule-silent:equal"))
        || sc.followup.is_some();
    Ok(rep)
}

/// The exhaustive pair space: op kind x op kind x timestamp relation x base state x optional
/// causal follow-up (both sync orders are run for each).
pub fn pair_space() -> Vec<Scenario> {
    let mut out = vec![];
    // single-edit kinds for a replica, by base state; `ts` and the value index are filled in
    fn kinds(base: u8, ts: i8, v: u8) -> Vec<Vec<Intent>> {
        let mut k = vec![
            vec![Intent::Set { t: 0, p: 0, v, ts }],      // update p (creates the task if absent)
            vec![Intent::Set { t: 0, p: 1, v, ts }],      // update q
            vec![Intent::Set { t: 1, p: 0, v, ts }],      // update another task
            vec![Intent::Set { t: 0, p: 0, v: 0, ts }],   // remove p
        ];
        if base != 0 {
            k.push(vec![Intent::Delete { t: 0 }]);
            k.push(vec![Intent::Set { t: 0, p: 1, v, ts }, Intent::Delete { t: 0 }]); // update, then delete
        } else {
            k.push(vec![Intent::Create { t: 0 }]);
            k.push(vec![Intent::Create { t: 0 }, Intent::Delete { t: 0 }]); // created and deleted again before the first sync
            k.push(vec![Intent::Set { t: 0, p: 1, v, ts }, Intent::Delete { t: 0 }]);
        }
        k
    }
    for base in 0..3u8 {
        for (va, vb) in [(4u8, 5u8), (1, 1), (1, 2)] {
            for tsb in [-1i8, 0, 1] {
                let ka = kinds(base, 0, va);
                let kb = kinds(base, tsb, vb);
                for a in &ka {
                    for b in &kb {
                        for followup in [
                            None,
                            Some((0u8, Intent::Set { t: 0, p: 0, v: 6, ts: -2 })),
                            Some((1u8, Intent::Set { t: 0, p: 0, v: 6, ts: -2 })),
                        ] {
                            out.push(Scenario {
                                base,
                                edits: vec![a.clone(), b.clone()],
                                followup,
                            });
                        }
                    }
                }
            }
        }
    }
    out
}

pub fn strategy() -> BoxedStrategy<Scenario> {
    (2usize..=3, 0u8..3)
        .prop_flat_map(|(n, base)| {
            (
                proptest::collection::vec(
                    proptest::collection::vec(intent_strategy(2), 0..=3),
                    n,
                ),
                proptest::option::weighted(
                    0.3,
                    (0..n as u8, 0u8..2, 0u8..3, 4u8..6).prop_map(|(r, t, p, v)| {
                        (r, Intent::Set { t, p, v, ts: -2 })
                    }),
                ),
            )
                .prop_map(move |(edits, followup)| Scenario {
                    base,
                    edits,
                    followup,
                })
        })
        .boxed()
}

pub fn render(sc: &Scenario) -> serde_json::Value {
    let base = ["shared task absent", "shared task present, empty", "shared task present with p and q"][sc.base as usize % 3];
    serde_json::json!({
        "base": base,
        "concurrent_edits": sc.edits.iter().enumerate().map(|(r, e)| format!("R{r}: [{}]", e.iter().map(render_intent).collect::<Vec<_>>().join(", "))).collect::<Vec<_>>(),
        "followup": sc.followup.as_ref().map(|(r, i)| format!("after full sync, R{r}: {}", render_intent(i))),
        "sync_orders": "all permutations",
    })
}

pub fn run(e: &Engine) {
    let _ = task_uuid(0);
    let _ = MOp::Create(task_uuid(0));
    e.assume("the rule oracle is applied only where sync-model.md / the property determine a winner; ties with different values and repeated updates of one property on one replica are checked for agreement, membership and order independence only");
    let space = pair_space();
    e.enumerate(
        "pairs",
        "every pair of edits {update p, update q, update other task, remove p, delete task | create task, update-then-delete, create-then-delete} x value relation {distinct, equal, pool} x timestamp relation {earlier, equal, later} x base state {absent, empty, populated} x causal follow-up {none, by A, by B}; each run in both sync orders; non-trivial = contains a genuine conflict class or a causal follow-up",
        space,
        render,
        check_scenario,
    );
    e.campaign(
        "triples",
        "2-3 replicas with 0-3 generated edits each on 2 tasks, optional causal follow-up with an older timestamp, all permutations of the sync order; non-trivial as above",
        e.tier.pick(100_000, 2_000_000),
        strategy,
        render,
        check_scenario,
    );
}
