//! C11 — a failure inside a server's add-version leaves the backend usable.
//!
//! Enumerates backend x internal step x fault kind.  For the local and git servers the steps are
//! the named failpoints hit during the interrupted call (counted in a fault-free run first); for
//! the object-store server they are the object-store requests.  After the fault every handle is
//! dropped and the backend reopened ("restart"); then atomic visibility is checked and a
//! generated continuation history must complete and converge.

use super::c08::{Backend, Bk};
use super::common::{action_strategy, intent_strategy, pool, render_action, render_intent, Action, Intent, Realizer};
use crate::engine::exec::block_on;
use crate::engine::model::{parse_version, Model};
use crate::engine::rep::Rep;
use crate::engine::sched::{run_scheduled, Client};
use crate::engine::{CaseReport, CheckResult, Engine, Failure};
use proptest::prelude::*;
use serde::{Deserialize, Serialize};
use std::cell::RefCell;
use std::panic::{catch_unwind, AssertUnwindSafe};
use std::rc::Rc;
use taskchampion::server::verif::{failpoints_arm, failpoints_report, failpoints_suspend, FailAction, ProcessStop, StoreFault};
use taskchampion::server::{AddVersionResult, GetVersionResult, HistorySegment, Server, Snapshot, SnapshotUrgency, VersionId};
use taskchampion::{Error, Uuid};

#[derive(Clone, Debug, PartialEq, Eq, Hash, Serialize, Deserialize)]
pub struct Scn {
    pub backend: Backend,
    /// fault-free history before the interrupted sync: (replica, intents), each followed by a sync
    pub initial: Vec<(u8, Vec<Intent>)>,
    /// what the interrupted replica X (replica 0) has pending
    pub x_intents: Vec<Intent>,
    /// another replica's version lands between X's last pull and X's add_version
    pub race: Option<Vec<Intent>>,
    /// for the object store: at which of X's requests the racing replica runs
    pub race_at: u8,
    /// git only: the interrupted call is a direct add_snapshot after X's sync
    pub git_snapshot: bool,
    pub cont: Vec<Action>,
    /// object store only: the interrupted add_version is followed by its cleanup phase (as it
    /// is with probability 5% in production), and everything stored so far is older than the
    /// retention age
    #[serde(default)]
    pub store_cleanup: bool,
}

#[derive(Clone, Debug, PartialEq, Eq, Hash, Serialize, Deserialize)]
pub enum Kind {
    Error,
    /// failpoints: the process stops here; object store: the request is carried out, the reply lost
    StopOrLostReply,
}

#[derive(Clone, Debug, PartialEq, Eq, Hash, Serialize, Deserialize)]
pub struct Point {
    pub scn: Scn,
    pub index: usize,
    pub kind: Kind,
    /// name of the step (for evidence / signatures), from the counting run
    pub step: String,
    pub total_steps: usize,
    /// false: the process lives on after the failed call and goes on with the same server
    /// handles (only meaningful when the call returned an error)
    #[serde(default = "yes")]
    pub restart: bool,
}

fn yes() -> bool {
    true
}

pub fn scn_strategy(backend: Backend) -> BoxedStrategy<Scn> {
    let intents = || proptest::collection::vec(intent_strategy(2), 1..3);
    (
        proptest::collection::vec((0u8..3, intents()), 0..3),
        intents(),
        proptest::option::weighted(if backend == Backend::GitRemote { 0.75 } else { 0.4 }, intents()),
        0u8..14,
        prop_oneof![3 => Just(false), 1 => Just(true)],
        if matches!(backend, Backend::GitLocal | Backend::GitRemote) {
            proptest::collection::vec(action_strategy(3, 2, 0), 1..4)
        } else {
            proptest::collection::vec(action_strategy(3, 2, 0), 2..8)
        },
    )
        .prop_map(move |(initial, x_intents, race, race_at, git_snapshot, cont)| Scn {
            store_cleanup: backend == Backend::ObjectStore && race_at % 2 == 1,
            backend,
            initial,
            x_intents,
            race,
            race_at,
            git_snapshot: git_snapshot && matches!(backend, Backend::GitLocal | Backend::GitRemote),
            cont,
        })
        .boxed()
}

/// Records what passes through a server handle; can run a hook right before add_version.
struct Interposer {
    inner: Option<Box<dyn Server>>,
    log: Rc<RefCell<Vec<(Uuid, Vec<u8>)>>>,
    before_add: Option<Box<dyn FnMut()>>,
    /// where the wrapped handle goes when the interposer is dropped
    give_back: Slot,
}

type Slot = Rc<RefCell<Option<Box<dyn Server>>>>;

impl Drop for Interposer {
    fn drop(&mut self) {
        *self.give_back.borrow_mut() = self.inner.take();
    }
}

#[async_trait::async_trait(?Send)]
impl Server for Interposer {
    async fn add_version(
        &mut self,
        parent_version_id: VersionId,
        history_segment: HistorySegment,
    ) -> Result<(AddVersionResult, SnapshotUrgency), Error> {
        if let Some(mut f) = self.before_add.take() {
            f();
        }
        self.log.borrow_mut().push((parent_version_id, history_segment.clone()));
        self.inner.as_mut().unwrap().add_version(parent_version_id, history_segment).await
    }
    async fn get_child_version(&mut self, parent_version_id: VersionId) -> Result<GetVersionResult, Error> {
        self.inner.as_mut().unwrap().get_child_version(parent_version_id).await
    }
    async fn add_snapshot(&mut self, version_id: VersionId, snapshot: Snapshot) -> Result<(), Error> {
        self.inner.as_mut().unwrap().add_snapshot(version_id, snapshot).await
    }
    async fn get_snapshot(&mut self) -> Result<Option<(VersionId, Snapshot)>, Error> {
        self.inner.as_mut().unwrap().get_snapshot().await
    }
}

struct Run {
    bk: Bk,
    reps: Vec<Rep>,
    rz: Vec<Realizer>,
    /// something is on the chain (a second git clone may be created)
    pushed: bool,
}

fn handles_for(b: Backend) -> usize {
    match b {
        Backend::GitLocal | Backend::Local1 => 1,
        Backend::GitRemote => 2,
        _ => 3,
    }
}

impl Run {
    fn new(b: Backend) -> Result<Run, Failure> {
        Ok(Run {
            bk: Bk::open(b, handles_for(b))?,
            reps: (0..3).map(|_| Rep::mem(&pool())).collect(),
            rz: (0..3).map(Realizer::new).collect(),
            pushed: false,
        })
    }
    /// which backend handle replica r uses
    fn hidx(&self, r: usize) -> usize {
        match self.bk.backend {
            Backend::GitLocal | Backend::Local1 => 0,
            Backend::GitRemote => r.min(1),
            _ => r,
        }
    }
    fn commit(&mut self, r: usize, intents: &[Intent]) -> Result<(), Failure> {
        let mut local = self.reps[r].tasks();
        let mut ops = vec![];
        self.rz[r].realize(intents, &mut local, &mut ops);
        self.reps[r].commit(ops).map_err(|e| Failure::new("commit-error", format!("{e}")))
    }
    fn sync(&mut self, r: usize) -> Result<(), Error> {
        let h = self.hidx(r);
        let pushed = self.pushed;
        let s = self.bk.handle(h, pushed).map_err(|f| Error::Server(f.msg))?;
        let res = self.reps[r].sync(s, false);
        self.pushed = self.pushed || !self.reps[r].dump().base.is_nil();
        res
    }
    fn restart(&mut self) {
        for h in 0..self.bk.handles.len() {
            self.bk.drop_handle(h);
        }
    }
}

const EMPTY_VERSION: &[u8] = br#"{"operations":[]}"#;

struct Interrupted {
    /// X's add_version attempts during the interrupted sync
    attempts: Vec<(Uuid, Vec<u8>)>,
    /// versions pushed by the racing replica
    racer: Vec<(Uuid, Vec<u8>)>,
    fired: bool,
    stopped: bool,
    steps: Vec<String>,
    sync_result: Option<Result<(), String>>,
}

/// Run the scenario up to and including the interrupted call of replica X.
fn run_until_fault(scn: &Scn, fault: Option<(usize, Kind)>) -> Result<(Run, Interrupted), Failure> {
    let mut run = Run::new(scn.backend)?;
    for (r, intents) in &scn.initial {
        let r = *r as usize % 3;
        run.commit(r, intents)?;
        run.sync(r).map_err(|e| Failure::new("sync-error", format!("initial sync of replica {r} failed: {e:?}")))?;
    }
    if scn.store_cleanup {
        // The history so far is about to become older than the retention age, so a cleanup may
        // remove it once a snapshot covers it.  A replica that has local changes but has never
        // synchronized cannot join such a server (by design: only an empty replica starts from a
        // snapshot), so every replica is brought up to date first.
        run.sync(2).map_err(|e| Failure::new("sync-error", format!("initial sync of replica 2 failed: {e:?}")))?;
        run.sync(1).map_err(|e| Failure::new("sync-error", format!("initial sync of replica 1 failed: {e:?}")))?;
    }
    // X learns the current state, then edits
    run.sync(0).map_err(|e| Failure::new("sync-error", format!("initial sync of X failed: {e:?}")))?;
    run.commit(0, &scn.x_intents)?;
    if let Some(ri) = &scn.race {
        run.sync(1).map_err(|e| Failure::new("sync-error", format!("initial sync of the racer failed: {e:?}")))?;
        run.commit(1, ri)?;
    }
    let log: Rc<RefCell<Vec<(Uuid, Vec<u8>)>>> = Rc::new(RefCell::new(vec![]));
    let racer_log: Rc<RefCell<Vec<(Uuid, Vec<u8>)>>> = Rc::new(RefCell::new(vec![]));
    let mut out = Interrupted {
        attempts: vec![],
        racer: vec![],
        fired: false,
        stopped: false,
        steps: vec![],
        sync_result: None,
    };
    let is_store = scn.backend == Backend::ObjectStore;
    if is_store {
        // ---- object store: faults by request index of X's handle; the racer is scheduled
        let pushed = run.pushed;
        let hx = run.hidx(0);
        let hy = run.hidx(1);
        run.bk.handle(hx, pushed)?;
        run.bk.handle(hy, pushed)?;
        let store = run.bk.store().unwrap().clone();
        if scn.store_cleanup {
            // everything stored so far (creation time 0) is older than the retention age, which is
            // measured against the real clock; what is stored from now on is recent; X's
            // add_version runs its cleanup phase
            let now = std::time::SystemTime::now().duration_since(std::time::UNIX_EPOCH).map(|d| d.as_secs()).unwrap_or(0);
            store.set_clock(now);
            let mut h = taskchampion::server::verif::cloud_server(store.handle(hx), run.bk.cryptor().unwrap());
            h.set_cleanup_probability(255);
            run.bk.handles[hx] = Some(Box::new(h));
            // (the draw that decides whether the cleanup runs; every other handle has
            // probability 0)
            taskchampion::server::verif::set_draws(vec![], Some(0));
        }
        let sx = store.handle(hx);
        let sy = store.handle(hy);
        sx.arm(match &fault {
            Some((i, Kind::Error)) => vec![(*i, StoreFault::ErrorBefore)],
            Some((i, Kind::StopOrLostReply)) => vec![(*i, StoreFault::ErrorAfter)],
            None => vec![],
        });
        store.clear_log();
        let racing = scn.race.is_some();
        sx.set_gated(racing);
        sy.set_gated(racing);
        let (slot_x, slot_y): (Slot, Slot) = Default::default();
        let mut hx_box: Box<dyn Server> = Box::new(Interposer {
            inner: run.bk.handles[hx].take(),
            log: log.clone(),
            before_add: None,
            give_back: slot_x.clone(),
        });
        let mut hy_box: Box<dyn Server> = Box::new(Interposer {
            inner: run.bk.handles[hy].take(),
            log: racer_log.clone(),
            before_add: None,
            give_back: slot_y.clone(),
        });
        let results = {
            let (rx, rest) = run.reps.split_at_mut(1);
            let mut clients: Vec<Client<'_, Result<(), Error>>> = vec![Box::pin(rx[0].replica.sync(&mut hx_box, false))];
            if racing {
                clients.push(Box::pin(rest[0].replica.sync(&mut hy_box, false)));
            }
            // X runs `race_at` requests, then the racer runs to completion, then X continues
            let mut schedule = vec![0u8; scn.race_at as usize];
            schedule.extend(std::iter::repeat(255u8).take(200));
            run_scheduled(clients, &schedule)
        };
        sx.set_gated(false);
        sy.set_gated(false);
        taskchampion::server::verif::set_draws(vec![], Some(255));
        out.fired = fault.as_ref().map(|(i, _)| sx.requests() > *i).unwrap_or(false);
        out.steps = store
            .log()
            .iter()
            .filter(|r| r.client == hx)
            .map(|r| format!("{} {}", r.kind, if r.name.len() > 8 { &r.name[..8] } else { &r.name }))
            .collect();
        sx.arm(vec![]);
        if std::env::var("VERIF_DEBUG").is_ok() {
            for r in store.log() {
                eprintln!("DEBUG store request: client {} {} {} -> {}", r.client, r.kind, r.name, format!("{} {:?}", r.result, r.fault));
            }
            for (n, t, v) in store.raw_list() {
                eprintln!("DEBUG object {n} created {t} ({} bytes)", v.len());
            }
        }
        if racing {
            if let Err(e) = &results.outputs[1] {
                crate::fail!("racer-sync-error", "the racing replica's sync failed although only X's requests were faulted: {e:?}");
            }
        }
        out.sync_result = Some(results.outputs[0].as_ref().map(|_| ()).map_err(|e| format!("{e:?}")));
        drop(results);
        drop(hx_box);
        drop(hy_box);
        run.bk.handles[hx] = slot_x.borrow_mut().take();
        run.bk.handles[hy] = slot_y.borrow_mut().take();
        run.pushed = true;
    } else {
        // ---- local / git: failpoints on this thread, racer through the interposer hook
        let pushed = run.pushed;
        let hx = run.hidx(0);
        let hy = run.hidx(1);
        run.bk.handle(hx, pushed)?;
        let plan = fault.as_ref().map(|(i, k)| {
            (
                *i,
                match k {
                    Kind::Error => FailAction::Error,
                    Kind::StopOrLostReply => FailAction::Stop,
                },
            )
        });
        // The racer syncs from inside X's add_version, i.e. exactly between X's last pull and
        // its push.  Only possible when the racer has a handle of its own.
        type Racer = Rc<RefCell<Option<(Rep, Box<dyn Server>)>>>;
        let racer: Racer = Rc::new(RefCell::new(None));
        let mut hook: Option<Box<dyn FnMut()>> = None;
        if scn.race.is_some() && !scn.git_snapshot && hy != hx && (scn.backend != Backend::GitRemote || pushed) {
            run.bk.handle(hy, pushed)?;
            let rep1 = std::mem::replace(&mut run.reps[1], Rep::mem(&pool()));
            let h1 = run.bk.handles[hy].take().unwrap();
            *racer.borrow_mut() = Some((rep1, h1));
            let racer2 = racer.clone();
            let rl = racer_log.clone();
            hook = Some(Box::new(move || {
                failpoints_suspend(true);
                if let Some((rep1, h1)) = racer2.borrow_mut().as_mut() {
                    let before = rep1.dump().unsynced.len();
                    if rep1.sync(h1, false).is_ok() && before > 0 {
                        rl.borrow_mut().push((Uuid::nil(), vec![]));
                    }
                }
                failpoints_suspend(false);
            }));
        }
        let slot_x: Slot = Default::default();
        let mut hx_box: Box<dyn Server> = Box::new(Interposer {
            inner: run.bk.handles[hx].take(),
            log: log.clone(),
            before_add: hook,
            give_back: slot_x.clone(),
        });
        let target_is_snapshot = scn.git_snapshot;
        if target_is_snapshot {
            // X syncs fault-free first; the interrupted call is add_snapshot
            let r = run.reps[0].sync(&mut hx_box, false);
            r.map_err(|e| Failure::new("sync-error", format!("X's sync before the snapshot failed: {e:?}")))?;
        }
        failpoints_arm(plan);
        let res = catch_unwind(AssertUnwindSafe(|| {
            if target_is_snapshot {
                let base = run.reps[0].dump().base;
                if base.is_nil() {
                    return Ok(());
                }
                let snap = super::c12::encode_snapshot(&run.reps[0].tasks());
                block_on(hx_box.add_snapshot(base, snap))
            } else {
                run.reps[0].sync(&mut hx_box, false)
            }
        }));
        let (steps, fired) = failpoints_report();
        failpoints_arm(None);
        failpoints_suspend(false);
        out.steps = steps;
        out.fired = fired;
        match res {
            Ok(r) => out.sync_result = Some(r.map_err(|e| format!("{e:?}"))),
            Err(p) => {
                if p.downcast_ref::<ProcessStop>().is_some() {
                    out.stopped = true;
                } else {
                    crate::fail!(
                        "backend-panic",
                        "the backend panicked during the interrupted call: {}",
                        crate::engine::exec::panic_message(&p)
                    );
                }
            }
        }
        drop(hx_box);
        run.bk.handles[hx] = slot_x.borrow_mut().take();
        if let Some((rep1, h1)) = racer.borrow_mut().take() {
            run.reps[1] = rep1;
            run.bk.handles[hy] = Some(h1);
        }
        run.pushed = run.pushed || !run.reps[0].dump().base.is_nil() || !log.borrow().is_empty();
    }
    out.attempts = log.borrow().clone();
    out.racer = racer_log.borrow().clone();
    Ok((run, out))
}

/// Count the steps of the interrupted call in a fault-free run.
pub fn count_steps(scn: &Scn) -> Result<Vec<String>, Failure> {
    let (_, out) = run_until_fault(scn, None)?;
    match &out.sync_result {
        Some(Ok(())) => Ok(out.steps),
        other => Err(Failure::new(
            "fault-free-run-failed",
            format!("the scenario fails without any fault: {other:?}"),
        )),
    }
}

/// The chain as a new replica reads it: from the root, or - when a cleanup has removed the oldest
/// versions because a snapshot covers them - from the snapshot the backend hands out.  Returns
/// the state to start from and the versions after it.
fn walk(s: &mut Box<dyn Server>) -> Result<(Model, Vec<(Uuid, Uuid, Vec<u8>)>), Failure> {
    let mut out = vec![];
    let mut p = Uuid::nil();
    let mut start = Model::new();
    loop {
        match block_on(s.get_child_version(p)).map_err(|e| Failure::new("walk-error", format!("after restart get_child_version({p}) fails: {e:?}")))? {
            GetVersionResult::Version { version_id, parent_version_id, history_segment } => {
                crate::ensure!(parent_version_id == p, "wrong-child", "child of {p} claims parent {parent_version_id}");
                crate::ensure!(!out.iter().any(|(id, _, _): &(Uuid, Uuid, Vec<u8>)| *id == version_id), "chain-cycle", "the chain revisits {version_id}");
                out.push((version_id, p, history_segment));
                p = version_id;
            }
            GetVersionResult::NoSuchVersion => {
                if p.is_nil() && out.is_empty() {
                    let snap = block_on(s.get_snapshot()).map_err(|e| Failure::new("walk-error", format!("get_snapshot fails: {e:?}")))?;
                    if let Some((v, bytes)) = snap {
                        start = super::c12::decode_snapshot(&bytes).map_err(|e| Failure::new("bad-snapshot", e))?;
                        // the version the snapshot belongs to stands for everything before it
                        out.push((v, Uuid::nil(), vec![]));
                        p = v;
                        continue;
                    }
                }
                return Ok((start, out));
            }
        }
    }
}

pub fn check_point(pt: &Point) -> CheckResult {
    let mut rep = CaseReport::default();
    let scn = &pt.scn;
    let (mut run, mut out) = run_until_fault(scn, Some((pt.index, pt.kind.clone())))?;
    // A replay file written on an older tree names its step by index and by name; when the
    // tree has gained or lost steps since, the name decides (failpoint backends only: their step
    // names are fixed strings).
    let mut pt = pt.clone();
    let failpoints = scn.backend != Backend::ObjectStore;
    if failpoints && out.fired && out.steps.get(pt.index).map(|s| *s != pt.step).unwrap_or(false) {
        let steps = count_steps(scn)?;
        let best = steps.iter().enumerate().filter(|(_, s)| **s == pt.step).min_by_key(|(i, _)| i.abs_diff(pt.index)).map(|(i, _)| i);
        if let Some(best) = best {
            pt.index = best;
            pt.total_steps = steps.len();
            let again = run_until_fault(scn, Some((pt.index, pt.kind.clone())))?;
            run = again.0;
            out = again.1;
            rep.class("replayed-step-found-by-name");
        }
    }
    let pt = &pt;
    // A finding is identified by its call site: backend, internal step, fault kind.  What the
    // oracles observe afterwards is in the message.
    let sig = |_what: &str| format!("{:?}:{}:{:?}{}", scn.backend, pt.step, pt.kind, if pt.restart { "" } else { ":no-restart" });
    if !out.fired {
        rep.class("fault-point-not-reached");
    }
    if out.fired && !out.stopped {
        // an error was returned to the replica (or swallowed by a best-effort step)
        rep.class("error-returned");
    }
    if out.stopped {
        rep.class("process-stop");
    }
    // ---- restart (or, after a returned error, the same process going on with the same handles)
    if pt.restart || out.stopped {
        run.restart();
    } else {
        rep.class("continued-without-restart");
    }
    let pushed = run.pushed;
    let hx = run.hidx(0);
    // atomic visibility, judged through a fresh handle
    {
        let s = run.bk.handle(hx, pushed).map_err(|mut f| {
            f.signature = sig("reopen-failed");
            f.msg = format!("after the fault at step {} ({:?}) the backend cannot be reopened: {}", pt.step, pt.kind, f.msg);
            f
        })?;
        let (_, chain) = walk(s).map_err(|mut f| {
            f.signature = sig(&f.signature);
            f
        })?;
        let latest = chain.last().map(|v| v.0).unwrap_or(Uuid::nil());
        if let Some((parent, bytes)) = out.attempts.last() {
            match chain.iter().find(|v| v.1 == *parent) {
                None => rep.class("interrupted-version-not-visible"),
                Some((_, _, b)) => {
                    if b == bytes {
                        rep.class("interrupted-version-visible");
                    } else {
                        // somebody else's version has that parent (the racer's)
                        crate::ensure!(
                            scn.race.is_some() || chain.iter().any(|v| v.2 == *b),
                            sig("foreign-child"),
                            "after restart the child of {parent} is neither the interrupted version nor another replica's"
                        );
                        rep.class("racer-won");
                    }
                }
            }
        }
        // the chain protocol still holds: the head accepts a child, everything else is rejected
        // naming the head
        let (r1, _) = block_on(s.add_version(latest, EMPTY_VERSION.to_vec())).map_err(|e| {
            Failure::new(sig("add-version-error-after-restart"), format!("after restart add_version on the latest version fails: {e:?}"))
        })?;
        let probe = match r1 {
            AddVersionResult::Ok(id) => id,
            AddVersionResult::ExpectedParentVersion(x) => {
                // the git backend with a remote may need one retry (see C08)
                let again = if scn.backend == Backend::GitRemote && x == latest {
                    block_on(s.add_version(latest, EMPTY_VERSION.to_vec())).ok().map(|r| r.0)
                } else {
                    None
                };
                match again {
                    Some(AddVersionResult::Ok(id)) => id,
                    _ => {
                        return Err(Failure::new(
                            sig("latest-rejected-after-restart"),
                            format!(
                                "after the fault at step '{}' ({:?}) and a restart, a walk from the root ends at {latest} ({} versions), but add_version on {latest} is rejected naming {x}: the interrupted version is visible to readers yet not the latest for writers",
                                pt.step,
                                pt.kind,
                                chain.len()
                            ),
                        ))
                    }
                }
            }
        };
        // (on the git backends every probe costs a dozen process launches: the root and the two
        // newest parents only)
        let git = matches!(scn.backend, Backend::GitLocal | Backend::GitRemote);
        let parents: Vec<Uuid> = chain.iter().map(|v| v.1).chain(std::iter::once(latest)).collect();
        let np = parents.len();
        for (pi, v) in parents.into_iter().enumerate() {
            if v == probe || (git && pi > 0 && pi + 2 < np) {
                continue;
            }
            let (r, _) = block_on(s.add_version(v, EMPTY_VERSION.to_vec())).map_err(|e| {
                Failure::new(sig("add-version-error-after-restart"), format!("after restart add_version fails: {e:?}"))
            })?;
            match r {
                AddVersionResult::ExpectedParentVersion(x) => crate::ensure!(
                    x == probe,
                    sig("rejection-names-wrong-version"),
                    "after restart a stale add_version is rejected naming {x}, the latest version is {probe}"
                ),
                AddVersionResult::Ok(id) => crate::fail!(
                    sig("second-child-accepted"),
                    "after the fault at step '{}' ({:?}) and a restart, version {v} already has a child but add_version with that parent was accepted again ({id}): two children of one parent",
                    pt.step,
                    pt.kind
                ),
            }
        }
    }
    let git_backend = matches!(scn.backend, Backend::GitLocal | Backend::GitRemote);
    // ---- continuation: all three replicas go on synchronizing
    let mut synced = [false; 3];
    for (ai, a) in scn.cont.iter().enumerate() {
        match a {
            Action::Commit { r, intents } => run.commit(*r as usize % 3, intents)?,
            Action::Sync { r } => {
                let r = *r as usize % 3;
                run.sync(r).map_err(|e| {
                    Failure::new(
                        sig(if format!("{e:?}").contains("OutOfSync") { "out-of-sync-after-restart" } else { "sync-error-after-restart" }),
                        format!(
                            "after the fault at step '{}' ({:?}) and a restart, continuation action {ai}: sync of replica {r}{} fails: {e:?}",
                            pt.step,
                            pt.kind,
                            if r == 0 { " (the interrupted one)" } else { "" }
                        ),
                    )
                })?;
                synced[r] = true;
            }
            Action::Big { .. } => {}
        }
    }
    for round in 0..2 {
        for r in 0..3 {
            // (on the git backends, where a sync costs dozens of process launches: replica 2
            // synchronized last in the first round, has seen everything and nobody has anything
            // left to send, so its second sync is skipped)
            if git_backend && round == 1 && r == 2 {
                continue;
            }
            run.sync(r).map_err(|e| {
                Failure::new(
                    sig(if format!("{e:?}").contains("OutOfSync") { "out-of-sync-after-restart" } else { "sync-error-after-restart" }),
                    format!(
                        "after the fault at step '{}' ({:?}) and a restart, quiesce round {round}: sync of replica {r}{} fails: {e:?}",
                        pt.step,
                        pt.kind,
                        if r == 0 { " (the interrupted one)" } else { "" }
                    ),
                )
            })?;
        }
    }
    // converge to the replay of a final walk
    run.restart();
    let pushed = run.pushed;
    let s = run.bk.handle(hx, pushed)?;
    let (mut m, chain) = walk(s)?;
    for v in &chain {
        if v.2.is_empty() {
            continue; // the snapshot's version
        }
        m.apply_all(&parse_version(&v.2).map_err(|e| Failure::new("bad-version", e))?);
    }
    for r in 0..3 {
        let t = run.reps[r].tasks();
        crate::ensure!(
            t == m,
            sig("diverged-after-restart"),
            "after the fault at step '{}' ({:?}), restart and continuation, replica {r} holds\n  {}\nbut the backend's chain ({} versions) replays to\n  {}",
            pt.step,
            pt.kind,
            t.render(),
            chain.len(),
            m.render()
        );
        crate::ensure!(run.reps[r].num_local() == 0, sig("quiesce-pending"), "replica {r} still has local operations");
    }
    // strictly inside = after the first and before the last effect of the call
    let inside = pt.index > 0 && pt.index + 1 < pt.total_steps && out.fired;
    rep.nontrivial = inside;
    rep.class_if(scn.race.is_some(), "with-racing-replica");
    rep.class_if(scn.git_snapshot, "interrupted-add-snapshot");
    rep.class_if(scn.store_cleanup, "add-version-with-cleanup-phase-over-old-objects");
    Ok(rep)
}

pub fn render(pt: &Point) -> serde_json::Value {
    serde_json::json!({
        "backend": format!("{:?}", pt.scn.backend),
        "initial": pt.scn.initial.iter().map(|(r, i)| format!("R{r}: commit [{}]; sync", i.iter().map(render_intent).collect::<Vec<_>>().join(", "))).collect::<Vec<_>>(),
        "x_pending": pt.scn.x_intents.iter().map(render_intent).collect::<Vec<_>>(),
        "racing_replica": pt.scn.race.as_ref().map(|i| i.iter().map(render_intent).collect::<Vec<_>>()),
        "interrupted_call": if pt.scn.git_snapshot { "add_snapshot" } else if pt.scn.store_cleanup { "sync (add_version followed by its cleanup phase; stored objects older than the retention age)" } else { "sync (add_version)" },
        "fault": format!("step {} of {}: '{}', {:?}", pt.index, pt.total_steps, pt.step, pt.kind),
        "then": if pt.restart { "restart (all handles dropped, backend reopened)" } else { "no restart: the same handles go on" },
        "continuation": pt.scn.cont.iter().map(render_action).collect::<Vec<_>>(),
    })
}

pub fn points_for(scn: &Scn) -> Result<Vec<Point>, Failure> {
    let steps = count_steps(scn)?;
    let mut out = vec![];
    for (i, step) in steps.iter().enumerate() {
        // a returned error (object store: also a lost reply) is also followed without a restart
        let lost_reply_returns = scn.backend == Backend::ObjectStore;
        for (kind, restart) in [(Kind::Error, true), (Kind::StopOrLostReply, true), (Kind::Error, false), (Kind::StopOrLostReply, false)] {
            if !restart && kind == Kind::StopOrLostReply && !lost_reply_returns {
                continue;
            }
            out.push(Point {
                scn: scn.clone(),
                index: i,
                kind,
                step: step.clone(),
                total_steps: steps.len(),
                restart,
            });
        }
    }
    Ok(out)
}

pub fn run(e: &Engine) {
    e.assume("'restart' = every handle is dropped and the backend reopened on the same directory / object store; 'stop' at a failpoint = unwinding out of the call (neither the local nor the git server has Drop logic)");
    e.assume("object-store requests are atomic, so the fault kinds there are 'error before the request' and 'request done, reply lost'");
    let configs: [(Backend, u64, u64); 4] = [
        (Backend::Local2, 60, 1500),
        (Backend::ObjectStore, 60, 1500),
        (Backend::GitLocal, 2, 12),
        (Backend::GitRemote, 2, 10),
    ];
    for (b, quick, thorough) in configs {
        let n = e.tier.pick(quick, thorough);
        let strat = scn_strategy(b);
        let mut cases: Vec<Point> = vec![];
        if e.replay.is_none() {
            for i in 0..n {
                let mut scn = crate::engine::draw(&strat, e.seed.wrapping_add(0xc11).wrapping_add(i * 7919 + b as u64 * 104_729));
                if b == Backend::GitRemote && i % 2 == 1 {
                    // the interrupted call is the very first push to a brand-new remote
                    scn.initial.clear();
                    scn.git_snapshot = false;
                }
                match points_for(&scn) {
                    Ok(p) => cases.extend(p),
                    Err(f) => {
                        e.record_violation(&format!("steps-{b:?}"), f, &serde_json::to_value(&scn).unwrap());
                        return;
                    }
                }
            }
        }
        e.set_worker_cap(if matches!(b, Backend::GitLocal | Backend::GitRemote) { 4 } else { u64::MAX });
        e.enumerate(
            &format!("steps-{b:?}"),
            &format!("{b:?}: for each of {n} generated scenarios (initial history, X's pending changes, optionally a racing replica whose version lands between X's pull and push, optionally an interrupted add_snapshot), EVERY internal step of the interrupted call (failpoints before/after each database statement, file write and git command; or every object-store request) x {{error, stop / lost reply}}; then restart (after a returned error also: no restart, the same handles go on), atomic-visibility and chain-protocol probes, a generated continuation by all three replicas, convergence to the replay of a final walk; non-trivial = the fault lies strictly inside the call"),
            cases,
            render,
            check_point,
        );
        if e.failed() {
            return;
        }
    }
}
