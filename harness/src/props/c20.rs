//! C20 — expiration purges exactly the long-deleted tasks, everywhere.

use super::common::{pool, World};
use crate::engine::exec::block_on;
use crate::engine::model::Model;
use crate::engine::{CaseReport, CheckResult, Engine, Failure};
use chrono::Utc;
use proptest::prelude::*;
use serde::{Deserialize, Serialize};
use std::collections::{BTreeMap, BTreeSet};
use taskchampion::{Operation, Uuid};

const STATUSES: [Option<&str>; 6] = [
    Some("pending"),
    Some("completed"),
    Some("deleted"),
    Some("recurring"),
    Some("frobnicated"),
    None,
];

/// How the `modified` value of a grid task is produced.
#[derive(Clone, Copy, Debug, PartialEq, Eq, Hash, Serialize, Deserialize)]
pub enum Modified {
    Absent,
    Text(u8),       // index into NON_NUMERIC
    OutOfRange(u8), // index into OUT_OF_RANGE
    Future(u32),    // now + secs
    Older(u32),     // now - 180 d - secs  (secs >= 60): expirable
    Newer(u32),     // now - 180 d + secs  (secs >= 60): not expirable
    Zero,
    Negative(u32),
    /// integer syntax the documentation does not describe (+5, 007, -0): don't-care
    OddSyntax(u8),
}

const NON_NUMERIC: [&str; 6] = ["abc", "", " 5", "1e9", "12.5", "0x10"];
const OUT_OF_RANGE: [&str; 4] = [
    "99999999999999999",
    "-99999999999999999",
    "9223372036854775807",
    "99999999999999999999999999",
];
const ODD: [&str; 3] = ["+5", "007", "-0"];

#[derive(Clone, Debug, PartialEq, Eq, Hash, Serialize, Deserialize)]
pub enum Edit {
    /// update a property of the task
    Prop(u8),
    /// set status back to pending and refresh modified
    Reopen,
    /// delete the task outright on the other replica too
    Purge,
}

/// Changes made on the expiring replica itself after its last sync (so the working set still
/// reflects the earlier status when expire_tasks runs).
#[derive(Clone, Debug, PartialEq, Eq, Hash, Serialize, Deserialize)]
pub enum LocalEdit {
    /// status deleted, modified more than 180 days ago (e.g. an import)
    DeleteOld,
    /// status deleted, modified less than 180 days ago
    DeleteRecent,
    /// status pending, modified now
    Reopen,
}

#[derive(Clone, Debug, PartialEq, Eq, Hash, Serialize, Deserialize)]
pub struct Case {
    #[serde(default)]
    pub local: Vec<(u16, LocalEdit)>,
    /// offsets (seconds, >= 60) used by the boundary cells
    pub near: u32,
    pub far: u32,
    /// concurrent edits on the second replica: (grid cell index, edit)
    pub edits: Vec<(u16, Edit)>,
    /// which replica syncs first after the expiry
    pub b_first: bool,
    /// a third replica that only syncs at the end
    pub third: bool,
    /// expire a second time after everything has been synchronized
    pub twice: bool,
}

fn grid(near: u32, far: u32) -> Vec<(usize, Modified)> {
    let mods = vec![
        Modified::Absent,
        Modified::Text(0),
        Modified::Text(1),
        Modified::Text(2),
        Modified::Text(3),
        Modified::OutOfRange(0),
        Modified::OutOfRange(1),
        Modified::OutOfRange(2),
        Modified::OutOfRange(3),
        Modified::Future(far),
        Modified::Older(near),
        Modified::Older(3600),
        Modified::Older(far),
        Modified::Newer(near),
        Modified::Newer(3600),
        Modified::Newer(far),
        Modified::Zero,
        Modified::Negative(far),
        Modified::OddSyntax(0),
        Modified::OddSyntax(1),
        Modified::OddSyntax(2),
    ];
    let mut out = vec![];
    for s in 0..STATUSES.len() {
        for m in &mods {
            out.push((s, *m));
        }
    }
    out
}

pub fn strategy() -> BoxedStrategy<Case> {
    (
        60u32..7200,
        86_400u32..40_000_000,
        proptest::collection::vec(
            (
                any::<u16>(),
                prop_oneof![3 => (0u8..3).prop_map(Edit::Prop), 2 => Just(Edit::Reopen), 1 => Just(Edit::Purge)],
            ),
            0..24,
        ),
        any::<bool>(),
        any::<bool>(),
        any::<bool>(),
        proptest::collection::vec(
            (any::<u16>(), prop_oneof![3 => Just(LocalEdit::DeleteOld), 1 => Just(LocalEdit::DeleteRecent), 1 => Just(LocalEdit::Reopen)]),
            0..8,
        ),
    )
        .prop_map(|(near, far, edits, b_first, third, twice, local)| Case {
            local,
            near,
            far,
            edits,
            b_first,
            third,
            twice,
        })
        .boxed()
}

fn cell_uuid(i: usize) -> Uuid {
    Uuid::from_u128(0xc20_0000 + i as u128)
}

pub fn check_case(c: &Case) -> CheckResult {
    let mut rep = CaseReport::default();
    let n = if c.third { 3 } else { 2 };
    let mut w = World::new(n);
    let cells = grid(c.near, c.far);
    let now = Utc::now().timestamp();
    let d180 = 180 * 86_400i64;
    // build the grid on replica 0
    let mut ops = vec![];
    let mut expect_expired: BTreeSet<Uuid> = BTreeSet::new();
    let mut dont_care: BTreeSet<Uuid> = BTreeSet::new();
    for (i, (s, m)) in cells.iter().enumerate() {
        let uuid = cell_uuid(i);
        ops.push(Operation::Create { uuid });
        let set = |k: &str, v: String, ops: &mut Vec<Operation>| {
            ops.push(Operation::Update {
                uuid,
                property: k.to_string(),
                old_value: None,
                value: Some(v),
                timestamp: crate::engine::model::ts(0),
            })
        };
        if let Some(st) = STATUSES[*s] {
            set("status", st.to_string(), &mut ops);
        }
        set("description", format!("cell {i}"), &mut ops);
        let deleted = STATUSES[*s] == Some("deleted");
        let mval = match m {
            Modified::Absent => None,
            Modified::Text(k) => Some(NON_NUMERIC[*k as usize].to_string()),
            Modified::OutOfRange(k) => Some(OUT_OF_RANGE[*k as usize].to_string()),
            Modified::Future(s) => Some((now + *s as i64).to_string()),
            Modified::Older(s) => {
                if deleted {
                    expect_expired.insert(uuid);
                }
                Some((now - d180 - *s as i64).to_string())
            }
            Modified::Newer(s) => Some((now - d180 + *s as i64).to_string()),
            Modified::Zero => {
                if deleted {
                    expect_expired.insert(uuid);
                }
                Some("0".to_string())
            }
            Modified::Negative(s) => {
                if deleted {
                    expect_expired.insert(uuid);
                }
                Some((-(*s as i64)).to_string())
            }
            Modified::OddSyntax(k) => {
                if deleted {
                    dont_care.insert(uuid);
                }
                Some(ODD[*k as usize].to_string())
            }
        };
        if let Some(v) = mval {
            set("modified", v, &mut ops);
        }
    }
    w.reps[0]
        .commit(ops)
        .map_err(|e| Failure::new("commit-error", format!("grid commit failed: {e}")))?;
    for r in 0..n {
        w.sync(r)
            .map_err(|e| Failure::new("sync-error", format!("initial sync failed: {e}")))?;
    }
    // changes on the expiring replica itself, not followed by a sync or a working-set rebuild
    let mut locally_edited: BTreeSet<Uuid> = BTreeSet::new();
    {
        let cur = w.reps[0].tasks();
        let mut ops = vec![];
        for (ci, e) in &c.local {
            let i = ((*ci as usize) * cells.len()) >> 16;
            let uuid = cell_uuid(i);
            if !locally_edited.insert(uuid) {
                continue;
            }
            let (st, md) = match e {
                LocalEdit::DeleteOld => ("deleted", now - d180 - c.far as i64),
                LocalEdit::DeleteRecent => ("deleted", now - d180 + c.near as i64),
                LocalEdit::Reopen => ("pending", now),
            };
            for (k, v) in [("status", st.to_string()), ("modified", md.to_string())] {
                ops.push(Operation::Update {
                    uuid,
                    property: k.to_string(),
                    old_value: cur.0[&uuid].get(k).cloned(),
                    value: Some(v),
                    timestamp: Utc::now(),
                });
            }
            dont_care.remove(&uuid);
            if *e == LocalEdit::DeleteOld {
                expect_expired.insert(uuid);
                let was = cur.0[&uuid].get("status").map(|s| s.as_str());
                if matches!(was, Some("pending") | Some("recurring")) {
                    rep.class("deleted-long-ago-but-still-in-the-working-set");
                }
            } else {
                expect_expired.remove(&uuid);
            }
        }
        if !ops.is_empty() {
            w.reps[0]
                .commit(ops)
                .map_err(|e| Failure::new("commit-error", format!("local edit commit failed: {e}")))?;
        }
    }
    let before = w.reps[0].tasks();

    // concurrent edits on replica 1
    let mut edited: BTreeMap<Uuid, &Edit> = BTreeMap::new();
    {
        let mut ops = vec![];
        let local = w.reps[1].tasks();
        for (ci, e) in &c.edits {
            // every other edit is aimed at a cell that is going to be purged (deleted status
            // with an old, zero or negative modification time)
            let expirable: Vec<usize> = cells
                .iter()
                .enumerate()
                .filter(|(_, (s, m))| STATUSES[*s] == Some("deleted") && matches!(m, Modified::Older(_) | Modified::Zero | Modified::Negative(_)))
                .map(|(i, _)| i)
                .collect();
            let i = if ci & 1 == 1 && !expirable.is_empty() {
                expirable[((*ci as usize) * expirable.len()) >> 16]
            } else {
                ((*ci as usize) * cells.len()) >> 16
            };
            let uuid = cell_uuid(i);
            if edited.contains_key(&uuid) || locally_edited.contains(&uuid) {
                continue;
            }
            edited.insert(uuid, e);
            let cur = &local.0[&uuid];
            match e {
                Edit::Prop(k) => ops.push(Operation::Update {
                    uuid,
                    property: ["description", "project", "modified"][*k as usize % 3].to_string(),
                    old_value: cur.get(["description", "project", "modified"][*k as usize % 3]).cloned(),
                    value: Some(if *k as usize % 3 == 2 { now.to_string() } else { "edited elsewhere".to_string() }),
                    timestamp: Utc::now(),
                }),
                Edit::Reopen => {
                    ops.push(Operation::Update {
                        uuid,
                        property: "status".into(),
                        old_value: cur.get("status").cloned(),
                        value: Some("pending".into()),
                        timestamp: Utc::now(),
                    });
                    ops.push(Operation::Update {
                        uuid,
                        property: "modified".into(),
                        old_value: cur.get("modified").cloned(),
                        value: Some(now.to_string()),
                        timestamp: Utc::now(),
                    });
                }
                Edit::Purge => ops.push(Operation::Delete {
                    uuid,
                    old_task: cur.iter().map(|(k, v)| (k.clone(), v.clone())).collect(),
                }),
            }
        }
        if !ops.is_empty() {
            w.reps[1]
                .commit(ops)
                .map_err(|e| Failure::new("commit-error", format!("edit commit failed: {e}")))?;
        }
    }

    // expire on replica 0
    let unsynced_before = w.reps[0].dump().unsynced.len();
    block_on(w.reps[0].replica.expire_tasks())
        .map_err(|e| Failure::new("expire-error", format!("expire_tasks failed: {e}")))?;
    let after = w.reps[0].tasks();
    let removed: BTreeSet<Uuid> = before
        .0
        .keys()
        .filter(|u| !after.0.contains_key(u))
        .copied()
        .collect();
    for u in &expect_expired {
        crate::ensure!(
            removed.contains(u),
            "not-expired",
            "task {:?} (status deleted, modified {:?}, more than 180 days ago) was not purged",
            before.0[u].get("description"),
            before.0[u].get("modified")
        );
    }
    for u in &removed {
        crate::ensure!(
            expect_expired.contains(u) || dont_care.contains(u),
            "wrongly-expired",
            "task {:?} with status {:?} and modified {:?} was purged although it is not a deleted task whose modification time is readable and more than 180 days in the past",
            before.0[u].get("description"),
            before.0[u].get("status"),
            before.0[u].get("modified")
        );
    }
    for (u, t) in &after.0 {
        crate::ensure!(
            before.0.get(u) == Some(t),
            "survivor-changed",
            "task {u} survived expiration but its content changed"
        );
    }
    // the purge is recorded as ordinary deletions
    let d = w.reps[0].dump();
    let new_ops = &d.unsynced[unsynced_before..];
    let deleted_by_ops: BTreeSet<Uuid> = new_ops
        .iter()
        .filter_map(|o| match o {
            Operation::Delete { uuid, old_task } => {
                let full: BTreeMap<String, String> =
                    old_task.iter().map(|(k, v)| (k.clone(), v.clone())).collect();
                if before.0.get(uuid) == Some(&full) {
                    Some(*uuid)
                } else {
                    None
                }
            }
            _ => None,
        })
        .collect();
    crate::ensure!(
        deleted_by_ops == removed
            && new_ops
                .iter()
                .all(|o| matches!(o, Operation::Delete { .. } | Operation::UndoPoint)),
        "purge-not-recorded-as-deletes",
        "the purge of {} tasks was recorded as {:?}",
        removed.len(),
        new_ops.iter().map(|o| format!("{o:?}").chars().take(60).collect::<String>()).collect::<Vec<_>>()
    );
    w.check_replica_invariant(0, "after expire_tasks")?;

    // synchronize in the generated order
    let order: Vec<usize> = if c.b_first { vec![1, 0] } else { vec![0, 1] };
    for r in order {
        w.sync(r)
            .map_err(|e| Failure::new("sync-error", format!("sync of replica {r} failed: {e}")))?;
    }
    let fin = w.quiesce_and_check()?;
    for u in &removed {
        crate::ensure!(
            !fin.0.contains_key(u),
            "expired-task-came-back",
            "task {:?} was purged by expiration but exists after synchronization (concurrent edit elsewhere: {:?})",
            before.0[u].get("description"),
            edited.get(u)
        );
    }
    // everything else is as the other replica's edits left it
    let mut want = Model::new();
    for (u, t) in &before.0 {
        if removed.contains(u) {
            continue;
        }
        let mut t = t.clone();
        match edited.get(u) {
            Some(Edit::Purge) => continue,
            Some(Edit::Reopen) => {
                t.insert("status".into(), "pending".into());
                t.insert("modified".into(), now.to_string());
            }
            Some(Edit::Prop(k)) => {
                let key = ["description", "project", "modified"][*k as usize % 3];
                t.insert(
                    key.into(),
                    if *k as usize % 3 == 2 { now.to_string() } else { "edited elsewhere".to_string() },
                );
            }
            None => {}
        }
        want.0.insert(*u, t);
    }
    crate::ensure!(
        fin == want,
        "other-tasks-disturbed",
        "after expiration and synchronization the surviving tasks are not what the edits left: {} tasks vs {} expected",
        fin.0.len(),
        want.0.len()
    );
    if c.twice {
        // a second expiration after convergence must not remove anything else that is kept
        block_on(w.reps[1].replica.expire_tasks())
            .map_err(|e| Failure::new("expire-error", format!("second expire_tasks failed: {e}")))?;
        let t2 = w.reps[1].tasks();
        for (u, _) in &fin.0 {
            if !t2.0.contains_key(u) {
                crate::ensure!(
                    dont_care.contains(u),
                    "wrongly-expired",
                    "a second expiration on another replica purged task {u} ({:?})",
                    fin.0[u]
                );
            }
        }
        w.quiesce_and_check()?;
        rep.class("expired-twice");
    }
    let conc_on_expired = removed.iter().filter(|u| edited.contains_key(u)).count();
    rep.class_if(conc_on_expired > 0, "concurrent-edit-of-an-expired-task");
    rep.class_if(
        removed.iter().any(|u| matches!(edited.get(u), Some(Edit::Reopen))),
        "expired-task-reopened-elsewhere",
    );
    rep.class_if(c.b_first, "editing-replica-syncs-first");
    rep.class_if(c.third, "third-replica");
    let _ = pool();
    rep.nontrivial = !removed.is_empty() && conc_on_expired > 0;
    Ok(rep)
}

pub fn run(e: &Engine) {
    e.assume("expire_tasks reads the wall clock; every boundary cell keeps at least 60 s distance from now-180d, far more than a case takes");
    e.assume("integer syntax not described by tasks.md (+5, 007, -0) is don't-care for the exact expiry set");
    let cells = grid(60, 86_400).len();
    e.campaign(
        "grid",
        &format!("every case holds the full grid of {cells} tasks: status {{pending, completed, deleted, recurring, unknown, absent}} x modified {{absent, 4 non-numeric, 4 out-of-range, future, now-180d -/+ near/1h/far, 0, negative, 3 odd syntaxes}} with generated near (60 s-2 h) and far (1 d-460 d) offsets, plus generated changes on the expiring replica itself after its last sync (deleted long ago / deleted recently / re-opened; the working set is not rebuilt in between) and generated concurrent edits (property update, re-open, outright delete) on a second replica, both sync orders, optional third replica and second expiration; non-trivial = at least one task was purged and a purged task was edited concurrently elsewhere"),
        e.tier.pick(5000, 150_000),
        strategy,
        |c| serde_json::to_value(c).unwrap(),
        check_case,
    );
}
