//! C06 — the SQLite replica store is crash-atomic and durable.
//!
//! (a) deterministic crash-point enumeration: for the last replica action of a generated history
//!     a fault (error, or stop = future dropped) is injected at EVERY storage-call index; the
//!     database is then read through a fresh handle and must be exactly the state after the
//!     number of transactions that had committed.
//! (b) real kills: the harness re-executes itself as a child process that runs a generated
//!     action script on a SQLite directory; the parent SIGKILLs it and audits the directory.

use super::common::{pool, Intent, Realizer};
use crate::engine::exec::{block_on, block_on_abortable};
use crate::engine::mserver::{ModelServer, ServerState};
use crate::engine::obs::{dump_storage, Dump, StorageFault};
use crate::engine::rep::{open_sqlite, Rep};
use crate::engine::{hash_of, CaseReport, CheckResult, Engine, Failure};
use proptest::prelude::*;
use serde::{Deserialize, Serialize};
use std::io::{BufRead, BufReader, Write};
use std::path::{Path, PathBuf};
use std::process::{Command, Stdio};
use taskchampion::server::Server;
use taskchampion::storage::Storage;

#[derive(Clone, Debug, PartialEq, Eq, Hash, Serialize, Deserialize)]
pub enum KAction {
    Commit(Vec<Intent>),
    Undo,
    Rebuild(bool),
    Sync,
}

#[derive(Clone, Debug, PartialEq, Eq, Hash, Serialize, Deserialize)]
pub enum Step {
    /// an action of the SQLite-backed replica X
    X(KAction),
    /// another replica commits and syncs (so that X has versions to pull)
    Y(Vec<Intent>),
}

#[derive(Clone, Debug, PartialEq, Eq, Hash, Serialize, Deserialize)]
pub struct Case {
    pub steps: Vec<Step>,
    /// the action whose every storage call is interrupted
    pub last: KAction,
    /// X is a brand-new replica and the server offers a snapshot (taken at some point of the
    /// other replica's history) followed by later versions; X's own prior steps are skipped
    /// and the interrupted action is its first sync
    #[serde(default)]
    pub fresh_from_snapshot: bool,
}

fn status_intent() -> impl Strategy<Value = Intent> {
    // p = 2 is "status"; v 1..3 -> x,y,z; use the pool values so that some are "pending"
    (0u8..3, 0u8..3, 0u8..6, -2i8..=2).prop_map(|(t, p, v, ts)| Intent::Set { t, p, v, ts })
}

fn intents() -> impl Strategy<Value = Vec<Intent>> {
    proptest::collection::vec(
        prop_oneof![
            6 => status_intent(),
            1 => (0u8..3).prop_map(|t| Intent::Create { t }),
            1 => (0u8..3).prop_map(|t| Intent::Delete { t }),
            1 => Just(Intent::Undo),
        ],
        1..5,
    )
}

fn kaction() -> impl Strategy<Value = KAction> {
    prop_oneof![
        5 => intents().prop_map(KAction::Commit),
        2 => Just(KAction::Undo),
        1 => any::<bool>().prop_map(KAction::Rebuild),
        3 => Just(KAction::Sync),
    ]
}

pub fn strategy() -> BoxedStrategy<Case> {
    (
        proptest::collection::vec(
            prop_oneof![3 => kaction().prop_map(Step::X), 2 => intents().prop_map(Step::Y)],
            0..8,
        ),
        kaction(),
        prop_oneof![5 => Just(false), 1 => Just(true)],
    )
        .prop_map(|(steps, last, fresh_from_snapshot)| Case {
            steps,
            last: if fresh_from_snapshot { KAction::Sync } else { last },
            fresh_from_snapshot,
        })
        .boxed()
}

/// "pending" must be reachable so that the working set is exercised: map the pool value "x"
/// of the status property to "pending".
fn fix_status(ops: &mut [taskchampion::Operation]) {
    for op in ops.iter_mut() {
        if let taskchampion::Operation::Update { property, value, old_value, .. } = op {
            if property == "status" {
                for v in [value, old_value] {
                    if v.as_deref() == Some("x") {
                        *v = Some("pending".into());
                    }
                }
            }
        }
    }
}

/// Run one action on a replica; Ok(None) = the process "stopped" inside it.
fn run_action(
    rep: &mut Rep,
    server: &mut Box<dyn Server>,
    realizer: &mut Realizer,
    a: &KAction,
) -> Option<Result<(), taskchampion::Error>> {
    let hung = rep.probe.hung.clone();
    match a {
        KAction::Commit(intents) => {
            // reads happen under the armed fault too, so they must be abortable
            let all = match block_on_abortable(rep.replica.all_task_data(), &hung) {
                Some(Ok(a)) => a,
                Some(Err(e)) => return Some(Err(e)),
                None => return None,
            };
            let mut local = crate::engine::model::Model(
                all.into_iter()
                    .map(|(u, td)| (u, td.iter().map(|(k, v)| (k.clone(), v.clone())).collect()))
                    .collect(),
            );
            // the realizer's view must use "x" where the store has "pending"
            for t in local.0.values_mut() {
                if t.get("status").map(|s| s.as_str()) == Some("pending") {
                    t.insert("status".into(), "x".into());
                }
            }
            let mut ops = vec![];
            realizer.realize(intents, &mut local, &mut ops);
            fix_status(&mut ops);
            if ops.is_empty() {
                return Some(Ok(()));
            }
            block_on_abortable(rep.replica.commit_operations(ops), &hung)
        }
        KAction::Undo => {
            let ops = match block_on_abortable(rep.replica.get_undo_operations(), &hung) {
                Some(Ok(o)) => o,
                Some(Err(e)) => return Some(Err(e)),
                None => return None,
            };
            block_on_abortable(rep.replica.commit_reversed_operations(ops), &hung).map(|r| r.map(|_| ()))
        }
        KAction::Rebuild(renumber) => block_on_abortable(rep.replica.rebuild_working_set(*renumber), &hung),
        KAction::Sync => block_on_abortable(rep.replica.sync(server, false), &hung),
    }
}

fn copy_dir(from: &Path, to: &Path) -> Result<(), Failure> {
    std::fs::create_dir_all(to).map_err(|e| Failure::new("infra", format!("mkdir: {e}")))?;
    for ent in std::fs::read_dir(from).map_err(|e| Failure::new("infra", format!("readdir: {e}")))? {
        let ent = ent.map_err(|e| Failure::new("infra", format!("readdir: {e}")))?;
        std::fs::copy(ent.path(), to.join(ent.file_name()))
            .map_err(|e| Failure::new("infra", format!("copy: {e}")))?;
    }
    Ok(())
}

fn fresh_dump(dir: &Path) -> Result<Dump, Failure> {
    let mut s: Box<dyn Storage> = Box::new(
        open_sqlite(dir).map_err(|e| Failure::new("reopen-failed", format!("the database cannot be reopened: {e}")))?,
    );
    dump_storage(s.as_mut(), &pool())
        .map(|d| d.normalized())
        .map_err(|e| Failure::new("reopen-read-failed", format!("the reopened database cannot be read: {e}")))
}

pub fn check_case(c: &Case) -> CheckResult {
    let mut rep = CaseReport::default();
    let base = tempfile::TempDir::new().map_err(|e| Failure::new("infra", format!("{e}")))?;
    let d0 = base.path().join("d0");
    std::fs::create_dir_all(&d0).unwrap();
    let server = ModelServer::new();
    let mut rx = Realizer::new(0);
    let mut ry = Realizer::new(1);
    {
        // prior history
        let mut x = Rep::sqlite(&d0, &pool()).map_err(|e| Failure::new("sqlite-open", format!("{e}")))?;
        let mut y = Rep::mem(&pool());
        let (mut hx, _) = server.handle(0);
        let (mut hy, _) = server.handle(1);
        let mut snaps: Vec<(taskchampion::Uuid, Vec<u8>)> = vec![];
        for s in &c.steps {
            match s {
                Step::X(_) if c.fresh_from_snapshot => {}
                Step::X(a) => match run_action(&mut x, &mut hx, &mut rx, a) {
                    Some(Ok(())) => {}
                    other => crate::fail!("action-error", "prior action {a:?} failed: {:?}", other.map(|r| r.map_err(|e| e.to_string()))),
                },
                Step::Y(intents) => {
                    let mut local = y.tasks();
                    let mut ops = vec![];
                    ry.realize(intents, &mut local, &mut ops);
                    y.commit(ops).map_err(|e| Failure::new("commit-error", format!("{e}")))?;
                    y.sync(&mut hy, false).map_err(|e| Failure::new("sync-error", format!("{e}")))?;
                    let latest = server.state.borrow().latest();
                    if !latest.is_nil() {
                        snaps.push((latest, super::c12::encode_snapshot(&y.tasks())));
                    }
                }
            }
        }
        if c.fresh_from_snapshot && !snaps.is_empty() {
            // a snapshot from the middle of the history, so that later versions follow it
            let (v, b) = snaps[snaps.len() / 2].clone();
            server.state.borrow_mut().offer = Some((v, b));
        }
    } // X closed
    let s0: ServerState = server.state.borrow().clone();
    let counter0 = rx.counter;

    // fault-free run of the last action on a copy
    // What the same handle shows after an action failed with an error (tasks, working set
    // without trailing empty slots, number of unsynchronized operations), and whether the action
    // was then repeated on that handle.
    type Live = (crate::engine::model::Model, Vec<Option<taskchampion::Uuid>>, usize);
    let live_slot: std::cell::RefCell<Option<(Live, bool)>> = std::cell::RefCell::new(None);
    let run = |dir: &Path, fault: Option<(usize, StorageFault)>| -> Result<(Option<Result<(), String>>, usize, usize, Vec<Dump>), Failure> {
        let server = ModelServer::from_state(s0.clone());
        let (mut hx, _) = server.handle(0);
        let mut x = Rep::sqlite(dir, &pool()).map_err(|e| Failure::new("sqlite-open", format!("{e}")))?;
        let mut r = Realizer::new(0);
        r.counter = counter0;
        x.probe.keep_history(true);
        x.probe.arm(fault, false);
        let res = run_action(&mut x, &mut hx, &mut r, &c.last);
        let calls = x.probe.calls();
        let commits = x.probe.commits();
        let hist = x.probe.history();
        x.probe.disarm();
        *live_slot.borrow_mut() = None;
        if let (Some(Err(_)), Some(_)) = (&res, &fault) {
            // the process lives on with the same handle: the abandoned transaction must not show
            let tasks = x.try_tasks().map_err(|e| Failure::new("same-handle-read-failed", format!("after the failed action the same handle cannot read: {e}")))?;
            let mut ws = x.working_set();
            while ws.len() > 1 && ws.last() == Some(&None) {
                ws.pop();
            }
            if ws.is_empty() {
                ws.push(None);
            }
            let live = (tasks, ws, x.num_local());
            // ... and the action can simply be repeated on it (commit and undo only when nothing
            // of them had committed; sync and working-set rebuild complete whatever is missing)
            let repeat = match c.last {
                KAction::Sync | KAction::Rebuild(_) => true,
                KAction::Commit(_) | KAction::Undo => commits == 0,
            };
            if repeat {
                if commits == 0 {
                    r.counter = counter0;
                }
                match run_action(&mut x, &mut hx, &mut r, &c.last) {
                    Some(Ok(())) => {}
                    other => {
                        return Err(Failure::new(
                            "repeat-on-same-handle-failed",
                            format!(
                                "fault {fault:?} made {:?} fail; repeating the action on the same handle fails too: {:?}",
                                c.last,
                                other.map(|r| r.map_err(|e| e.to_string()))
                            ),
                        ))
                    }
                }
            }
            *live_slot.borrow_mut() = Some((live, repeat));
        }
        drop(x);
        Ok((res.map(|r| r.map_err(|e| e.to_string())), calls, commits, hist))
    };
    let before = fresh_dump(&d0)?;
    let d1 = base.path().join("free");
    copy_dir(&d0, &d1)?;
    let (res, n, _, hist) = run(&d1, None)?;
    crate::ensure!(
        matches!(res, Some(Ok(()))),
        "action-error",
        "the action {:?} failed without any fault: {res:?}",
        c.last
    );
    let mut states = vec![before.clone()];
    states.extend(hist.into_iter().map(|d| d.normalized()));
    let after = fresh_dump(&d1)?;
    crate::ensure!(
        after == *states.last().unwrap(),
        "committed-not-visible",
        "after the action {:?} completed, a fresh handle sees {after:?} but the last commit wrote {:?}",
        c.last,
        states.last().unwrap()
    );
    rep.class(match c.last {
        KAction::Commit(_) => "action:commit",
        KAction::Undo => "action:undo",
        KAction::Rebuild(_) => "action:rebuild",
        KAction::Sync => "action:sync",
    });
    if states.len() > 2 {
        rep.class("composite-action-with-2+-transactions");
    }
    if c.fresh_from_snapshot && s0.offer.is_some() {
        rep.class("first-sync-of-a-fresh-replica-from-a-snapshot");
    }
    // every storage call x {error, stop}
    for i in 0..n {
        for kind in [StorageFault::Err, StorageFault::Stop] {
            let di = base.path().join(format!("f{i}{}", if kind == StorageFault::Err { "e" } else { "s" }));
            copy_dir(&d0, &di)?;
            let (res, _, commits, _) = run(&di, Some((i, kind)))?;
            let got = fresh_dump(&di)?;
            if let Some(((tasks, ws, nlocal), repeated)) = live_slot.borrow_mut().take() {
                let want = &states[commits];
                // (num_local_operations does not count undo points)
                let want_local = want.unsynced.iter().filter(|o| !o.is_undo_point()).count();
                crate::ensure!(
                    tasks == want.tasks && ws == want.ws_trimmed() && nlocal == want_local,
                    "abandoned-transaction-visible-on-same-handle",
                    "error at storage call {i} of {:?} ({commits} transaction(s) committed): the same handle, kept open, then shows tasks {} / working set {ws:?} / {nlocal} unsynchronized operations, but the committed state is tasks {} / working set {:?} / {} operations",
                    c.last,
                    tasks.render(),
                    want.tasks.render(),
                    want.ws_trimmed(),
                    want_local
                );
                rep.class("same-handle-continues-after-error");
                if repeated {
                    let a = states.last().unwrap();
                    let same = got.tasks == a.tasks && got.working_set == a.working_set && got.unsynced == a.unsynced && (c.last == KAction::Sync || got.task_ops == a.task_ops);
                    crate::ensure!(
                        same,
                        "repeat-on-same-handle-differs",
                        "error at storage call {i} of {:?}, then the action repeated on the same handle: a fresh handle sees\n  {got:?}\nbut the uninterrupted action gives\n  {a:?}",
                        c.last
                    );
                    rep.class("action-repeated-on-same-handle");
                    rep.extra_evals += 1;
                    let _ = std::fs::remove_dir_all(&di);
                    continue;
                }
            }
            crate::ensure!(
                commits < states.len(),
                "too-many-commits",
                "fault at storage call {i} ({kind:?}) of {:?}: {commits} transactions committed, the fault-free run has {}",
                c.last,
                states.len() - 1
            );
            // the documented before/after guarantee: everything but the working set is either
            // entirely as before the action or entirely as after it
            let core = |d: &Dump| (d.tasks.clone(), d.base, d.unsynced.clone(), d.task_ops.clone());
            let (b, a) = (&states[0], states.last().unwrap());
            crate::ensure!(
                (core(&got) == core(b) || core(&got) == core(a))
                    && (got.working_set == b.working_set || got.working_set == a.working_set || states.iter().any(|s| s.working_set == got.working_set)),
                format!("crash-intermediate-state:{kind:?}"),
                "fault at storage call {i} ({kind:?}) of {:?} (result {res:?}): a fresh handle sees a state that is neither the complete before-state nor the complete after-state of the action:\n  {got:?}\nbefore: {b:?}\nafter:  {a:?}",
                c.last
            );
            crate::ensure!(
                got == states[commits],
                format!("crash-state:{kind:?}"),
                "fault at storage call {i} ({kind:?}) of {:?} (result {res:?}): {commits} transaction(s) had committed, so a fresh handle must see\n  {:?}\nbut it sees\n  {got:?}",
                c.last,
                states[commits]
            );
            rep.extra_evals += 1;
            // non-trivial: the crash point lies after at least one write of an uncommitted
            // multi-statement transaction (state differs between before and after)
            if states[commits] != *states.last().unwrap() && i > 2 {
                rep.extra_nontrivial.push(hash_of(&(i, kind == StorageFault::Err)));
            }
            let _ = std::fs::remove_dir_all(&di);
        }
    }
    rep.nontrivial = !rep.extra_nontrivial.is_empty();
    Ok(rep)
}

// ---------------------------------------------------------------------------------------------
// (b) real kills

#[derive(Clone, Debug, Serialize, Deserialize)]
pub struct Script {
    /// versions already on the (in-process, deterministic) server, written by "another replica"
    pub preload: Vec<Vec<Intent>>,
    pub actions: Vec<KAction>,
    pub delay_us: u64,
}

/// Runs the script on `rep`; calls `mark` with ("BEGIN"|"DONE", k).
fn run_script(rep: &mut Rep, script: &Script, mut mark: impl FnMut(&str, usize)) -> Result<(), String> {
    let server = ModelServer::new();
    // the other replica's history
    {
        let mut y = Rep::mem(&pool());
        let (mut hy, _) = server.handle(1);
        let mut ry = Realizer::new(1);
        for intents in &script.preload {
            let mut local = y.tasks();
            let mut ops = vec![];
            ry.realize(intents, &mut local, &mut ops);
            y.commit(ops).map_err(|e| e.to_string())?;
            y.sync(&mut hy, false).map_err(|e| e.to_string())?;
        }
    }
    let (mut hx, _) = server.handle(0);
    let mut rx = Realizer::new(0);
    for (k, a) in script.actions.iter().enumerate() {
        mark("BEGIN", k);
        match run_action(rep, &mut hx, &mut rx, a) {
            Some(Ok(())) => {}
            other => return Err(format!("action {k} {a:?}: {:?}", other.map(|r| r.map_err(|e| e.to_string())))),
        }
        mark("DONE", k);
    }
    Ok(())
}

/// Child process entry: `tcverif --c06-child <dir> <script.json>`
pub fn child_main(dir: &str, script_path: &str) -> i32 {
    let text = std::fs::read_to_string(script_path).expect("read script");
    let script: Script = serde_json::from_str(&text).expect("parse script");
    let mut rep = match Rep::sqlite(Path::new(dir), &pool()) {
        Ok(r) => r,
        Err(e) => {
            println!("ERROR open: {e}");
            return 3;
        }
    };
    rep.probe.set_delay_us(script.delay_us);
    let out = std::io::stdout();
    let r = run_script(&mut rep, &script, |what, k| {
        let mut o = out.lock();
        let _ = writeln!(o, "{what} {k}");
        let _ = o.flush();
    });
    match r {
        Ok(()) => {
            println!("FINISHED");
            0
        }
        Err(e) => {
            println!("ERROR {e}");
            3
        }
    }
}

#[derive(Clone, Debug, Serialize, Deserialize)]
pub struct KillCase {
    pub script: Script,
    /// Some(k): kill as soon as "DONE k" has been read; None: kill after `delay_us`
    pub kill_after_done: Option<usize>,
    pub kill_delay_us: u64,
}

pub fn kill_strategy() -> BoxedStrategy<KillCase> {
    (
        proptest::collection::vec(intents(), 0..3),
        proptest::collection::vec(kaction(), 2..10),
        prop_oneof![Just(0u64), Just(100u64), Just(400u64)],
        proptest::option::weighted(0.4, any::<u16>()),
        0u64..60_000,
    )
        .prop_map(|(preload, actions, delay_us, kad, kill_delay_us)| {
            let n = actions.len();
            KillCase {
                script: Script { preload, actions, delay_us },
                kill_after_done: kad.map(|f| (f as usize * n) >> 16),
                kill_delay_us,
            }
        })
        .boxed()
}

pub struct KillOutcome {
    pub done_seen: usize,
    pub killed_inside_action: bool,
    pub child_finished: bool,
}

pub fn check_kill(c: &KillCase) -> Result<KillOutcome, Failure> {
    // expected committed states, from an in-memory twin (C16 establishes the equivalence)
    let mut twin = Rep::mem(&pool());
    twin.probe.keep_history(true);
    let mut idx_done: Vec<usize> = vec![0];
    {
        let probe = twin.probe.clone();
        let mut marks: Vec<usize> = vec![];
        run_script(&mut twin, &c.script, |what, _| {
            if what == "DONE" {
                marks.push(probe.history().len());
            }
        })
        .map_err(|e| Failure::new("harness-bug", format!("the script fails on the in-memory twin: {e}")))?;
        idx_done.extend(marks);
    }
    // The twin is an in-memory replica: the order in which a working-set rebuild appends several
    // newcomers follows the iteration order of its task map, which is arbitrary (and unspecified by
    // the property), so working sets are compared as multisets here; positions are C15's and
    // C16's business.
    let canon = |d: Dump| {
        let mut d = d.normalized();
        d.working_set.sort();
        d
    };
    let mut states = vec![canon(Dump::empty())];
    states.extend(twin.probe.history().into_iter().map(canon));

    let dir = tempfile::TempDir::new().map_err(|e| Failure::new("infra", format!("{e}")))?;
    let db = dir.path().join("db");
    std::fs::create_dir_all(&db).unwrap();
    let script_path = dir.path().join("script.json");
    std::fs::write(&script_path, serde_json::to_string(&c.script).unwrap()).unwrap();
    let exe = std::env::current_exe().map_err(|e| Failure::new("infra", format!("{e}")))?;
    let mut child = Command::new(exe)
        .arg("--c06-child")
        .arg(&db)
        .arg(&script_path)
        .stdin(Stdio::null())
        .stdout(Stdio::piped())
        .stderr(Stdio::null())
        .spawn()
        .map_err(|e| Failure::new("infra", format!("cannot start the child process: {e}")))?;
    let stdout = child.stdout.take().unwrap();
    let pid = child.id() as libc::pid_t;
    let (tx, rx) = std::sync::mpsc::channel::<String>();
    let reader = std::thread::spawn(move || {
        for line in BufReader::new(stdout).lines().map_while(Result::ok) {
            if tx.send(line).is_err() {
                break;
            }
        }
    });
    let start = std::time::Instant::now();
    let mut lines: Vec<String> = vec![];
    let mut killed = false;
    let deadline = std::time::Duration::from_secs(60);
    loop {
        let timeout = if c.kill_after_done.is_none() {
            let d = std::time::Duration::from_micros(c.kill_delay_us);
            d.checked_sub(start.elapsed()).unwrap_or_default()
        } else {
            std::time::Duration::from_millis(200)
        };
        match rx.recv_timeout(timeout) {
            Ok(line) => {
                let is_target = c
                    .kill_after_done
                    .map(|k| line == format!("DONE {k}"))
                    .unwrap_or(false);
                lines.push(line);
                if is_target {
                    unsafe { libc::kill(pid, libc::SIGKILL) };
                    killed = true;
                    break;
                }
            }
            Err(std::sync::mpsc::RecvTimeoutError::Timeout) => {
                if c.kill_after_done.is_none() && start.elapsed() >= std::time::Duration::from_micros(c.kill_delay_us) {
                    unsafe { libc::kill(pid, libc::SIGKILL) };
                    killed = true;
                    break;
                }
                if start.elapsed() > deadline {
                    unsafe { libc::kill(pid, libc::SIGKILL) };
                    let _ = child.wait();
                    return Err(Failure::new("infra", "child did not finish within 60 s".to_string()));
                }
            }
            Err(std::sync::mpsc::RecvTimeoutError::Disconnected) => break, // child exited
        }
    }
    let _ = killed;
    let _ = child.wait();
    let _ = reader.join();
    while let Ok(l) = rx.try_recv() {
        lines.push(l);
    }
    if let Some(e) = lines.iter().find(|l| l.starts_with("ERROR")) {
        return Err(Failure::new("child-error", format!("the child reported: {e}")));
    }
    let done = lines.iter().filter(|l| l.starts_with("DONE")).count();
    let begun = lines.iter().filter(|l| l.starts_with("BEGIN")).count();
    let finished = lines.iter().any(|l| l == "FINISHED");
    // audit through fresh handles.  Once a commit has returned, a read-only reopen must show
    // what a read-write one shows (before that the database may not even be initialised, which a
    // read-only handle cannot do).
    let got_ro = if done >= 1 {
        let mut s: Box<dyn Storage> = Box::new(
            block_on(taskchampion::SqliteStorage::new(&db, taskchampion::storage::AccessMode::ReadOnly, false))
                .map_err(|e| Failure::new("reopen-failed", format!("after SIGKILL ({done} actions had completed) the database cannot be opened read-only: {e}")))?,
        );
        Some(
            dump_storage(s.as_mut(), &pool())
                .map(|d| d.normalized())
                .map_err(|e| Failure::new("reopen-read-failed", format!("after SIGKILL the database, opened read-only, cannot be read: {e}")))?,
        )
    } else {
        None
    };
    let got_exact = fresh_dump(&db)?;
    let got = canon(got_exact.clone());
    if let Some(got_ro) = got_ro {
        let got = got_exact;
        if got_ro != got {
            return Err(Failure::new(
                "kill-read-only-reopen-differs",
                format!("after SIGKILL a read-only reopen sees\n  {got_ro:?}\nbut a read-write reopen right after it sees\n  {got:?}"),
            ));
        }
    }
    let lo = idx_done[done];
    let hi = if done + 1 < idx_done.len() { idx_done[done + 1] } else { *idx_done.last().unwrap() };
    let pos = (lo..=hi).find(|i| states[*i] == got);
    if pos.is_none() {
        // where is it, if anywhere?
        let anywhere = states.iter().position(|s| *s == got);
        return Err(Failure::new(
            if anywhere.map(|a| a < lo).unwrap_or(false) { "kill-lost-committed-work" } else { "kill-partial-state" },
            format!(
                "after SIGKILL with {done} actions reported complete (of {}), the database matches {} but must be one of the committed states {lo}..={hi} of the script\n got {got:?}\n committed state {lo}: {:?}\n committed state {hi}: {:?}",
                c.script.actions.len(),
                match anywhere {
                    Some(a) => format!("committed state #{a}"),
                    None => "no committed state of the script at all".to_string(),
                },
                states[lo],
                states[hi]
            ),
        ));
    }
    Ok(KillOutcome {
        done_seen: done,
        killed_inside_action: begun > done,
        child_finished: finished,
    })
}

pub fn run(e: &Engine) {
    e.assume("(a) 'process stop' at a storage call = the action's future is dropped there and the handle closed; (b) real SIGKILLs cover the remaining difference to a true crash; kill instants are not reproducible, the oracle is sound for any instant");
    e.assume("the working set is compared without trailing empty slots");
    e.set_shrink_iters(200);
    e.campaign(
        "crash-points",
        "generated history on a SQLite replica X (commits with status changes, undo, rebuilds, syncs, interleaved with another replica's synced commits), then for the LAST action every storage-call index x {error, stop} on a copy of the directory; a fresh handle must see exactly the state after the transactions that had committed; evaluations count crash points; non-trivial = the crash point lay inside an uncommitted transaction that would have changed the state",
        e.tier.pick(300, 8000),
        strategy,
        |c| serde_json::to_value(c).unwrap(),
        check_case,
    );
    if e.replay.is_some() || e.failed() {
        return;
    }
    // (b) real kills, driven from here so that each case spawns one child
    let kills = e.tier.pick(160, 4000) as usize;
    let strat = kill_strategy();
    let mut fps = vec![];
    let mut inside = 0u64;
    let mut after_done = 0u64;
    let mut finished = 0u64;
    let mut samples = vec![];
    let results: std::sync::Mutex<Vec<(KillCase, Result<KillOutcome, Failure>)>> = std::sync::Mutex::new(vec![]);
    let cases: Vec<KillCase> = (0..kills)
        .map(|i| crate::engine::draw(&strat, e.seed.wrapping_add(0xc06).wrapping_add(i as u64 * 7919)))
        .collect();
    let next = std::sync::atomic::AtomicUsize::new(0);
    std::thread::scope(|s| {
        for _ in 0..e.workers.min(8) {
            s.spawn(|| loop {
                let i = next.fetch_add(1, std::sync::atomic::Ordering::Relaxed);
                if i >= cases.len() {
                    break;
                }
                let r = check_kill(&cases[i]);
                results.lock().unwrap().push((cases[i].clone(), r));
            });
        }
    });
    let mut n = 0u64;
    for (case, r) in results.into_inner().unwrap() {
        n += 1;
        match r {
            Ok(o) => {
                if o.killed_inside_action {
                    inside += 1;
                    fps.push(hash_of(&format!("{case:?}")));
                    if samples.len() < 3 {
                        samples.push(serde_json::json!({"script": case.script.actions.iter().map(|a| format!("{a:?}")).collect::<Vec<_>>(), "kill": format!("{:?}/{}us", case.kill_after_done, case.kill_delay_us), "actions_done_at_kill": o.done_seen}));
                    }
                }
                if case.kill_after_done.is_some() {
                    after_done += 1;
                }
                if o.child_finished {
                    finished += 1;
                }
            }
            Err(f) if f.signature == "infra" => e.note(format!("kill case skipped: {}", f.msg)),
            Err(f) => {
                e.record_violation("kills", f, &serde_json::to_value(&case).unwrap());
                break;
            }
        }
    }
    e.record_external(
        "kills",
        "a child process runs a generated action script (2-9 actions, optional per-call delay) on a SQLite directory and is SIGKILLed at a generated instant or right after reporting 'DONE k'; a fresh handle must show a committed state between 'all reported-done actions' and 'one more action'; non-trivial = the kill landed between a BEGIN and its DONE",
        n,
        fps,
        vec![("kill-inside-an-action", inside), ("kill-right-after-DONE", after_done), ("child-finished-before-kill", finished)],
        samples,
    );
}
