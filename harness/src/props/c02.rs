//! C02 — convergence survives racing syncs and rejected versions.

use super::common::*;
use crate::engine::mserver::Req;
use crate::engine::model::{parse_version, MOp};
use crate::engine::sched::{run_scheduled, Client};
use crate::engine::{CaseReport, CheckResult, Engine, Failure};
use proptest::prelude::*;
use serde::{Deserialize, Serialize};
use std::collections::BTreeMap;

#[derive(Clone, Debug, PartialEq, Eq, Hash, Serialize, Deserialize)]
pub struct Phase {
    /// commits made just before the race (replica, intents)
    pub commits: Vec<(u8, Vec<Intent>)>,
    /// bit i set = replica i takes part in the race
    pub racers: u8,
    /// which racer's next server request runs, step by step
    pub schedule: Vec<u8>,
    /// this replica additionally has pending changes above the batching threshold
    #[serde(default)]
    pub big: Option<u8>,
}

#[derive(Clone, Debug, PartialEq, Eq, Hash, Serialize, Deserialize)]
pub struct RaceCase {
    pub replicas: u8,
    pub prior: Vec<Action>,
    pub phases: Vec<Phase>,
}

fn phase_strategy(replicas: u8, tasks: u8) -> impl Strategy<Value = Phase> {
    phase_strategy_ext(replicas, tasks, false)
}

fn phase_strategy_ext(replicas: u8, tasks: u8, big: bool) -> impl Strategy<Value = Phase> {
    let commit = (
        0..replicas,
        proptest::collection::vec(intent_strategy(tasks), 1..=3),
    );
    (
        proptest::collection::vec(commit, 0..=4),
        1u8..(1 << replicas),
        proptest::collection::vec(any::<u8>(), 0..24),
        if big { proptest::option::weighted(0.8, 0..replicas).boxed() } else { Just(None).boxed() },
    )
        .prop_map(|(commits, racers, schedule, big)| Phase {
            commits,
            // the replica with the large pending changes takes part in the race
            racers: racers | big.map(|r| 1u8 << r).unwrap_or(0) | 1,
            schedule,
            big,
        })
}

pub fn race_strategy(max_replicas: u8, max_prior: usize, big_weight: u32) -> BoxedStrategy<RaceCase> {
    (2..=max_replicas)
        .prop_flat_map(move |replicas| {
            (
                proptest::collection::vec(action_strategy(replicas, 2, big_weight), 0..=max_prior),
                proptest::collection::vec(phase_strategy_ext(replicas, 2, big_weight > 0), 1..=3),
            )
                .prop_map(move |(prior, phases)| RaceCase {
                    replicas,
                    prior,
                    phases,
                })
        })
        .boxed()
}

/// No uniquely-valued update may occur in two places of the chain.
pub fn check_nothing_sent_twice(w: &World) -> Result<(), Failure> {
    let st = w.server.state.borrow();
    let mut seen: BTreeMap<(taskchampion::Uuid, String, String), usize> = BTreeMap::new();
    for (vi, v) in st.versions.iter().enumerate() {
        for op in parse_version(&v.bytes).map_err(|e| Failure::new("bad-version", e))? {
            if let MOp::Update(u, p, Some(val), _) = op {
                if val.starts_with('u') || val.starts_with("big") {
                    if let Some(prev) = seen.insert((u, p.clone(), val.clone()), vi) {
                        crate::fail!(
                            "sent-twice",
                            "the update {p}={} of task {u} was sent to the server twice (versions #{prev} and #{vi})",
                            &val[..val.len().min(24)]
                        );
                    }
                }
            }
        }
    }
    Ok(())
}

pub fn check_race(c: &RaceCase) -> CheckResult {
    let n = c.replicas as usize;
    let mut w = World::new(n);
    let mut rep = CaseReport::default();
    let mut flags = RunFlags::default();
    run_actions(&mut w, &c.prior, &mut rep, &mut flags)?;
    let mut rejections = 0usize;
    for (pi, ph) in c.phases.iter().enumerate() {
        for (r, intents) in &ph.commits {
            let r = *r as usize % n;
            w.commit(r, intents)?;
        }
        if let Some(r) = ph.big {
            let r = r as usize % n;
            let mut local = w.reps[r].tasks();
            let mut ops = vec![];
            w.realizers[r].realize_big(0, 3, 340, &[], &[], &[], &mut local, &mut ops);
            w.reps[r]
                .commit(ops)
                .map_err(|e| Failure::new("commit-error", format!("big commit failed: {e}")))?;
        }
        let racers: Vec<usize> = (0..n).filter(|i| ph.racers & (1 << i) != 0).collect();
        if racers.len() >= 2 {
            rep.class("race-with-2+-replicas");
        }
        let log_start = w.server.state.borrow().log.len();
        for r in &racers {
            w.ctls[*r].gated.set(true);
        }
        let results = {
            let World { reps, handles, .. } = &mut w;
            let mut clients: Vec<Client<'_, Result<(), taskchampion::Error>>> = vec![];
            for (i, (rp, h)) in reps.iter_mut().zip(handles.iter_mut()).enumerate() {
                if racers.contains(&i) {
                    clients.push(Box::pin(rp.replica.sync(h, false)));
                }
            }
            run_scheduled(clients, &ph.schedule)
        };
        for r in &racers {
            w.ctls[*r].gated.set(false);
        }
        for (k, res) in results.outputs.into_iter().enumerate() {
            let r = racers[k];
            if let Err(e) = res {
                crate::fail!(
                    "race-sync-error",
                    "phase {pi}: concurrent sync of replica {r} failed: {e:?} (schedule trace {:?})",
                    results.trace
                );
            }
        }
        // classify from the request log of this phase
        {
            let st = w.server.state.borrow();
            let log = &st.log[log_start..];
            let mut pulled_before: BTreeMap<usize, usize> = BTreeMap::new();
            let mut pushed_before: BTreeMap<usize, usize> = BTreeMap::new();
            for rq in log {
                match rq {
                    Req::GetChild {
                        client,
                        reply: Some(_),
                        ..
                    } => *pulled_before.entry(*client).or_default() += 1,
                    Req::AddVersion {
                        client, accepted, ..
                    } => match accepted {
                        Ok(_) => *pushed_before.entry(*client).or_default() += 1,
                        Err(_) => {
                            rejections += 1;
                            rep.class("rejection");
                            if pulled_before.get(client).copied().unwrap_or(0) > 0 {
                                rep.class("rejected-after-having-pulled-in-this-sync");
                            }
                            if pushed_before.get(client).copied().unwrap_or(0) > 0 {
                                rep.class("rejected-during-multi-batch-push");
                            }
                        }
                    },
                    _ => {}
                }
            }
        }
        for r in &racers {
            w.check_replica_invariant(*r, &format!("after race phase {pi} (replica {r})"))?;
        }
        check_nothing_sent_twice(&w)?;
    }
    if rejections >= 2 {
        rep.class("2+-rejections");
    }
    w.quiesce_and_check()?;
    check_nothing_sent_twice(&w)?;
    rep.nontrivial = rejections >= 1;
    Ok(rep)
}

pub fn render(c: &RaceCase) -> serde_json::Value {
    serde_json::json!({
        "replicas": c.replicas,
        "prior": c.prior.iter().map(render_action).collect::<Vec<_>>(),
        "phases": c.phases.iter().map(|p| serde_json::json!({
            "commits": p.commits.iter().map(|(r, i)| format!("R{r}: commit [{}]", i.iter().map(render_intent).collect::<Vec<_>>().join(", "))).collect::<Vec<_>>(),
            "racers": (0..8).filter(|i| p.racers & (1 << i) != 0).map(|i| format!("R{i}")).collect::<Vec<_>>(),
            "schedule": p.schedule,
        })).collect::<Vec<_>>(),
    })
}

/// All binary schedules of a given length for two racers, over a few fixed conflict setups
/// (a third replica's version already on the server, so that a racer pulls, loses a conflict,
/// and is then rejected).
pub fn exhaustive_cases(len: usize) -> Vec<RaceCase> {
    let set = |t: u8, p: u8, v: u8, ts: i8| Intent::Set { t, p, v, ts };
    let setups: Vec<(Vec<Action>, Vec<(u8, Vec<Intent>)>)> = vec![
        // A: [t0.p (older), t0.q]; B: t0.p (newer) already pushed; C races with A
        (
            vec![
                Action::Commit { r: 1, intents: vec![set(0, 0, 4, 1)] },
                Action::Sync { r: 1 },
            ],
            vec![(0, vec![set(0, 0, 4, -1), set(0, 1, 4, 0)]), (2, vec![set(1, 0, 4, 0)])],
        ),
        // both racers edit the same property with tied timestamps
        (vec![], vec![(0, vec![set(0, 0, 4, 0)]), (2, vec![set(0, 0, 5, 0)])]),
        // delete vs update, with an earlier version to pull
        (
            vec![
                Action::Commit { r: 1, intents: vec![set(0, 0, 1, 0), set(1, 0, 1, 0)] },
                Action::Sync { r: 1 },
                Action::Sync { r: 0 },
                Action::Sync { r: 2 },
                Action::Commit { r: 1, intents: vec![set(1, 1, 4, 1)] },
                Action::Sync { r: 1 },
            ],
            vec![(0, vec![Intent::Delete { t: 0 }]), (2, vec![set(0, 1, 4, 2), set(1, 1, 5, 0)])],
        ),
    ];
    let mut out = vec![];
    for (prior, commits) in setups {
        for bits in 0..(1u32 << len) {
            out.push(RaceCase {
                replicas: 3,
                prior: prior.clone(),
                phases: vec![Phase {
                    commits: commits.clone(),
                    racers: 0b101,
                    schedule: (0..len).map(|i| if bits & (1 << i) != 0 { 255 } else { 0 }).collect(),
                    big: None,
                }],
            });
        }
    }
    out
}

pub fn run(e: &Engine) {
    e.assume("the harness ModelServer is a correct server (atomic requests, linear chain); interleaving granularity = one server request");
    e.assume("replicas use the in-memory storage, so the only scheduling points are server requests");
    let rule = "prior history + 1-3 race phases in which 1-4 replicas call sync concurrently under a generated schedule; \
non-trivial = at least one add_version was answered ExpectedParentVersion; distinct = distinct generated case";
    e.campaign(
        "races",
        rule,
        e.tier.pick(150_000, 3_000_000),
        || race_strategy(4, 6, 0),
        render,
        check_race,
    );
    e.enumerate(
        "two-racers-exhaustive",
        "ALL binary schedules (length 12; thorough 16) of two racing syncs in three fixed conflict setups (a racer that pulls a version, loses a conflict and is then rejected; tied timestamps; delete vs update); oracles as above",
        exhaustive_cases(e.tier.pick(12, 16)),
        render,
        check_race,
    );
    e.campaign(
        "races-multibatch",
        "as 'races' with pending changes above the batching threshold in the prior history",
        e.tier.pick(300, 6000),
        || race_strategy(3, 4, 4),
        render,
        check_race,
    );
}
