//! C02 — convergence survives racing syncs and rejected versions.

use super::common::*;
use crate::engine::mserver::Req;
use crate::engine::model::{parse_version, MOp};
use crate::engine::sched::{run_scheduled, Client};
use crate::engine::{CaseReport, CheckResult, Engine, Failure};
use proptest::prelude::*;
use serde::{Deserialize, Serialize};
use std::collections::BTreeMap;

#[derive(Clone, Debug, PartialEq, Eq, Hash, Serialize, Deserialize)]
pub struct Phase {
    /// commits made just before the race (replica, intents)
    pub commits: Vec<(u8, Vec<Intent>)>,
    /// bit i set = replica i takes part in the race
    pub racers: u8,
    /// which racer's next server request runs, step by step
    pub schedule: Vec<u8>,
    /// this replica additionally has pending changes above the batching threshold
    #[serde(default)]
    pub big: Option<u8>,
}

#[derive(Clone, Debug, PartialEq, Eq, Hash, Serialize, Deserialize)]
pub struct RaceCase {
    pub replicas: u8,
    pub prior: Vec<Action>,
    pub phases: Vec<Phase>,
}

fn phase_strategy(replicas: u8, tasks: u8) -> impl Strategy<Value = Phase> {
    phase_strategy_ext(replicas, tasks, false)
}

fn phase_strategy_ext(replicas: u8, tasks: u8, big: bool) -> impl Strategy<Value = Phase> {
    let commit = (
        0..replicas,
        proptest::collection::vec(intent_strategy(tasks), 1..=3),
    );
    (
        proptest::collection::vec(commit, 0..=4),
        1u8..(1 << replicas),
        proptest::collection::vec(any::<u8>(), 0..24),
        if big { proptest::option::weighted(0.8, 0..replicas).boxed() } else { Just(None).boxed() },
    )
        .prop_map(|(commits, racers, schedule, big)| Phase {
            commits,
            // the replica with the large pending changes takes part in the race
            racers: racers | big.map(|r| 1u8 << r).unwrap_or(0) | 1,
            schedule,
            big,
        })
}

pub fn race_strategy(max_replicas: u8, max_prior: usize, big_weight: u32) -> BoxedStrategy<RaceCase> {
    (2..=max_replicas)
        .prop_flat_map(move |replicas| {
            (
                proptest::collection::vec(action_strategy(replicas, 2, big_weight), 0..=max_prior),
                proptest::collection::vec(phase_strategy_ext(replicas, 2, big_weight > 0), 1..=3),
            )
                .prop_map(move |(prior, phases)| RaceCase {
                    replicas,
                    prior,
                    phases,
                })
        })
        .boxed()
}

/// No uniquely-valued update may occur in two places of the chain.
pub fn check_nothing_sent_twice(w: &World) -> Result<(), Failure> {
    let st = w.server.state.borrow();
    let mut seen: BTreeMap<(taskchampion::Uuid, String, String), usize> = BTreeMap::new();
    for (vi, v) in st.versions.iter().enumerate() {
        for op in parse_version(&v.bytes).map_err(|e| Failure::new("bad-version", e))? {
            if let MOp::Update(u, p, Some(val), _) = op {
                if val.starts_with('u') || val.starts_with("big") {
                    if let Some(prev) = seen.insert((u, p.clone(), val.clone()), vi) {
                        crate::fail!(
                            "sent-twice",
                            "the update {p}={} of task {u} was sent to the server twice (versions #{prev} and #{vi})",
                            &val[..val.len().min(24)]
                        );
                    }
                }
            }
        }
    }
    Ok(())
}

pub fn check_race(c: &RaceCase) -> CheckResult {
    let n = c.replicas as usize;
    let mut w = World::new(n);
    for r in &mut w.realizers {
        r.stale_old = true;
    }
    let mut rep = CaseReport::default();
    let mut flags = RunFlags::default();
    run_actions(&mut w, &c.prior, &mut rep, &mut flags)?;
    let mut rejections = 0usize;
    for (pi, ph) in c.phases.iter().enumerate() {
        for (r, intents) in &ph.commits {
            let r = *r as usize % n;
            w.commit(r, intents)?;
        }
        if let Some(r) = ph.big {
            let r = r as usize % n;
            let mut local = w.reps[r].tasks();
            let mut ops = vec![];
            w.realizers[r].realize_big(0, 3, 340, &[], &[], &[], &mut local, &mut ops);
            w.reps[r]
                .commit(ops)
                .map_err(|e| Failure::new("commit-error", format!("big commit failed: {e}")))?;
        }
        let racers: Vec<usize> = (0..n).filter(|i| ph.racers & (1 << i) != 0).collect();
        if racers.len() >= 2 {
            rep.class("race-with-2+-replicas");
        }
        let log_start = w.server.state.borrow().log.len();
        for r in &racers {
            w.ctls[*r].gated.set(true);
        }
        let results = {
            let World { reps, handles, .. } = &mut w;
            let mut clients: Vec<Client<'_, Result<(), taskchampion::Error>>> = vec![];
            for (i, (rp, h)) in reps.iter_mut().zip(handles.iter_mut()).enumerate() {
                if racers.contains(&i) {
                    clients.push(Box::pin(rp.replica.sync(h, false)));
                }
            }
            run_scheduled(clients, &ph.schedule)
        };
        for r in &racers {
            w.ctls[*r].gated.set(false);
        }
        for (k, res) in results.outputs.into_iter().enumerate() {
            let r = racers[k];
            if let Err(e) = res {
                crate::fail!(
                    "race-sync-error",
                    "phase {pi}: concurrent sync of replica {r} failed: {e:?} (schedule trace {:?})",
                    results.trace
                );
            }
        }
        // classify from the request log of this phase
        {
            let st = w.server.state.borrow();
            let log = &st.log[log_start..];
            let mut pulled_before: BTreeMap<usize, usize> = BTreeMap::new();
            let mut pushed_before: BTreeMap<usize, usize> = BTreeMap::new();
            for rq in log {
                match rq {
                    Req::GetChild {
                        client,
                        reply: Some(_),
                        ..
                    } => *pulled_before.entry(*client).or_default() += 1,
                    Req::AddVersion {
                        client, accepted, ..
                    } => match accepted {
                        Ok(_) => *pushed_before.entry(*client).or_default() += 1,
                        Err(_) => {
                            rejections += 1;
                            rep.class("rejection");
                            if pulled_before.get(client).copied().unwrap_or(0) > 0 {
                                rep.class("rejected-after-having-pulled-in-this-sync");
                            }
                            if pushed_before.get(client).copied().unwrap_or(0) > 0 {
                                rep.class("rejected-during-multi-batch-push");
                            }
                        }
                    },
                    _ => {}
                }
            }
        }
        for r in &racers {
            w.check_replica_invariant(*r, &format!("after race phase {pi} (replica {r})"))?;
        }
        check_nothing_sent_twice(&w)?;
    }
    if rejections >= 2 {
        rep.class("2+-rejections");
    }
    w.quiesce_and_check()?;
    check_nothing_sent_twice(&w)?;
    rep.nontrivial = rejections >= 1;
    Ok(rep)
}

// ---------------------------------------------------------------------------------------------
// the same races through the real server backends

#[derive(Clone, Debug, PartialEq, Eq, Hash, Serialize, Deserialize)]
pub struct RealRaceCase {
    /// 0 = local server (one handle per replica on one directory), 1 = object store (scheduling
    /// points are the individual object-store requests), 2 = HTTP client against the harness's
    /// protocol server, 3 = git with a bare remote and one clone per replica
    pub backend: u8,
    pub race: RaceCase,
}

/// Yields to the scheduler before every request and counts rejected versions.
struct GatedServer {
    inner: Box<dyn taskchampion::server::Server>,
    gate: std::rc::Rc<std::cell::Cell<bool>>,
    rejections: std::rc::Rc<std::cell::Cell<usize>>,
}

#[async_trait::async_trait(?Send)]
impl taskchampion::server::Server for GatedServer {
    async fn add_version(
        &mut self,
        parent_version_id: taskchampion::server::VersionId,
        history_segment: taskchampion::server::HistorySegment,
    ) -> Result<(taskchampion::server::AddVersionResult, taskchampion::server::SnapshotUrgency), taskchampion::Error> {
        if self.gate.get() {
            crate::engine::exec::yield_once().await;
        }
        let r = self.inner.add_version(parent_version_id, history_segment).await;
        if let Ok((taskchampion::server::AddVersionResult::ExpectedParentVersion(_), _)) = &r {
            self.rejections.set(self.rejections.get() + 1);
        }
        r
    }
    async fn get_child_version(
        &mut self,
        parent_version_id: taskchampion::server::VersionId,
    ) -> Result<taskchampion::server::GetVersionResult, taskchampion::Error> {
        if self.gate.get() {
            crate::engine::exec::yield_once().await;
        }
        self.inner.get_child_version(parent_version_id).await
    }
    async fn add_snapshot(&mut self, version_id: taskchampion::server::VersionId, snapshot: taskchampion::server::Snapshot) -> Result<(), taskchampion::Error> {
        if self.gate.get() {
            crate::engine::exec::yield_once().await;
        }
        self.inner.add_snapshot(version_id, snapshot).await
    }
    async fn get_snapshot(&mut self) -> Result<Option<(taskchampion::server::VersionId, taskchampion::server::Snapshot)>, taskchampion::Error> {
        if self.gate.get() {
            crate::engine::exec::yield_once().await;
        }
        self.inner.get_snapshot().await
    }
}

pub fn check_race_real(c: &RealRaceCase) -> CheckResult {
    use super::c08::{Backend, Bk};
    use crate::engine::exec::block_on;
    use crate::engine::model::Model;
    use crate::engine::rep::Rep;
    use taskchampion::server::GetVersionResult;
    let backend = match c.backend % 4 {
        0 => Backend::Local2,
        1 => Backend::ObjectStore,
        2 => Backend::Http,
        _ => Backend::GitRemote,
    };
    let n = c.race.replicas as usize;
    let mut rep = CaseReport::default();
    rep.class(match backend {
        Backend::Local2 => "through-local-server",
        Backend::ObjectStore => "through-object-store",
        Backend::Http => "through-http",
        _ => "through-git-remote",
    });
    let mut bk = Bk::open(backend, n + 1)?;
    let gate = std::rc::Rc::new(std::cell::Cell::new(false));
    let rejections = std::rc::Rc::new(std::cell::Cell::new(0usize));
    let mut reps: Vec<Rep> = (0..n).map(|_| Rep::mem(&pool())).collect();
    let mut rz: Vec<Realizer> = (0..n).map(Realizer::new).collect();
    let mut handles: Vec<Option<Box<dyn taskchampion::server::Server>>> = (0..n).map(|_| None).collect();
    let mut pushed = false;
    // handle of replica r, opened on first use (a second git clone only once something is pushed)
    macro_rules! handle {
        ($r:expr) => {{
            let r: usize = $r;
            if handles[r].is_none() {
                let hidx = if backend == Backend::GitRemote && !pushed { 0 } else { r };
                if backend == Backend::GitRemote && hidx == 0 && r != 0 {
                    // replica r borrows clone 0 until the chain exists: not modelled, skip it
                    None
                } else {
                    bk.handle(hidx, pushed)?;
                    let inner = bk.handles[hidx].take().unwrap();
                    handles[r] = Some(Box::new(GatedServer { inner, gate: gate.clone(), rejections: rejections.clone() }));
                    handles[r].as_mut()
                }
            } else {
                handles[r].as_mut()
            }
        }};
    }
    macro_rules! commit {
        ($r:expr, $intents:expr) => {{
            let r: usize = $r;
            let mut local = reps[r].tasks();
            let mut ops = vec![];
            rz[r].realize($intents, &mut local, &mut ops);
            reps[r].commit(ops).map_err(|e| Failure::new("commit-error", format!("{e}")))?;
        }};
    }
    macro_rules! sync {
        ($r:expr, $what:expr) => {{
            let r: usize = $r;
            if let Some(h) = handle!(r) {
                reps[r]
                    .sync(h, true)
                    .map_err(|e| Failure::new("sync-error", format!("{}: sequential sync of replica {r} through {backend:?} failed: {e:?}", $what)))?;
                pushed = pushed || !reps[r].dump().base.is_nil();
            }
        }};
    }
    for a in &c.race.prior {
        match a {
            Action::Commit { r, intents } => commit!(*r as usize % n, intents),
            Action::Sync { r } => sync!(*r as usize % n, "prior history"),
            Action::Big { .. } => {}
        }
    }
    if backend == Backend::GitRemote && !pushed {
        // the remote's branch has to exist before a second clone is made
        commit!(0, &[Intent::Set { t: 0, p: 0, v: 1, ts: 0 }]);
        sync!(0, "first push");
    }
    for (pi, ph) in c.race.phases.iter().enumerate() {
        for (r, intents) in &ph.commits {
            commit!(*r as usize % n, intents);
        }
        if let Some(r) = ph.big {
            let r = r as usize % n;
            let mut local = reps[r].tasks();
            let mut ops = vec![];
            rz[r].realize_big(0, 3, 340, &[], &[], &[], &mut local, &mut ops);
            reps[r].commit(ops).map_err(|e| Failure::new("commit-error", format!("big commit failed: {e}")))?;
            rep.class("big-commit");
        }
        let racers: Vec<usize> = (0..n).filter(|i| ph.racers & (1 << i) != 0).collect();
        for r in &racers {
            if handle!(*r).is_none() {
                return Ok(rep);
            }
        }
        if racers.len() >= 2 {
            rep.class("race-with-2+-replicas");
        }
        let before = rejections.get();
        // scheduling points: server requests; on the object store, its individual requests
        if let Some(store) = bk.store() {
            for r in &racers {
                store.handle(*r).set_gated(true);
            }
        } else {
            gate.set(true);
        }
        let results = {
            let mut clients: Vec<Client<'_, Result<(), taskchampion::Error>>> = vec![];
            for (i, (rp, h)) in reps.iter_mut().zip(handles.iter_mut()).enumerate() {
                if racers.contains(&i) {
                    clients.push(Box::pin(rp.replica.sync(h.as_mut().unwrap(), true)));
                }
            }
            run_scheduled(clients, &ph.schedule)
        };
        gate.set(false);
        if let Some(store) = bk.store() {
            for r in &racers {
                store.handle(*r).set_gated(false);
            }
        }
        for (k, res) in results.outputs.into_iter().enumerate() {
            if let Err(e) = res {
                crate::fail!(
                    "race-sync-error",
                    "phase {pi}: concurrent sync of replica {} through {backend:?} failed: {e:?} (schedule trace {:?})",
                    racers[k],
                    results.trace
                );
            }
        }
        pushed = pushed || reps.iter_mut().any(|r| !r.dump().base.is_nil());
        if rejections.get() > before {
            rep.class("rejection-in-race");
        }
    }
    for round in 0..2 {
        for r in 0..n {
            sync!(r, format!("quiesce round {round}"));
        }
    }
    // the chain, read through a fresh handle, replays to what every replica holds
    bk.handle(n, pushed)?;
    let fresh = bk.handles[n].as_mut().unwrap();
    let mut m = Model::new();
    let mut p = taskchampion::Uuid::nil();
    let mut versions = 0;
    loop {
        match block_on(fresh.get_child_version(p)).map_err(|e| Failure::new("walk-error", format!("get_child_version({p}) through a fresh handle fails: {e:?}")))? {
            GetVersionResult::Version { version_id, parent_version_id, history_segment } => {
                crate::ensure!(parent_version_id == p, "wrong-child", "child of {p} claims parent {parent_version_id}");
                m.apply_all(&parse_version(&history_segment).map_err(|e| Failure::new("bad-version", e))?);
                p = version_id;
                versions += 1;
                crate::ensure!(versions < 10_000, "chain-cycle", "the chain does not end");
            }
            GetVersionResult::NoSuchVersion => break,
        }
    }
    for r in 0..n {
        if handles[r].is_none() {
            continue;
        }
        let t = reps[r].tasks();
        crate::ensure!(
            t == m,
            "diverged",
            "after the races through {backend:?} and quiescence replica {r} holds\n  {}\nbut the chain ({versions} versions) replays to\n  {}",
            t.render(),
            m.render()
        );
        crate::ensure!(reps[r].num_local() == 0, "quiesce-pending", "replica {r} still has local operations");
    }
    rep.nontrivial = rejections.get() >= 1;
    let _ = MOp::Create(taskchampion::Uuid::nil());
    Ok(rep)
}

pub fn real_strategy(backends: &'static [u8]) -> BoxedStrategy<RealRaceCase> {
    (proptest::sample::select(backends), race_strategy(3, 4, 1))
        .prop_map(|(backend, race)| RealRaceCase { backend, race })
        .boxed()
}

pub fn real_strategy_git() -> BoxedStrategy<RealRaceCase> {
    race_strategy(3, 2, 0).prop_map(|race| RealRaceCase { backend: 3, race }).boxed()
}

pub fn render(c: &RaceCase) -> serde_json::Value {
    serde_json::json!({
        "replicas": c.replicas,
        "prior": c.prior.iter().map(render_action).collect::<Vec<_>>(),
        "phases": c.phases.iter().map(|p| serde_json::json!({
            "commits": p.commits.iter().map(|(r, i)| format!("R{r}: commit [{}]", i.iter().map(render_intent).collect::<Vec<_>>().join(", "))).collect::<Vec<_>>(),
            "racers": (0..8).filter(|i| p.racers & (1 << i) != 0).map(|i| format!("R{i}")).collect::<Vec<_>>(),
            "schedule": p.schedule,
        })).collect::<Vec<_>>(),
    })
}

/// All binary schedules of a given length for two racers, over a few fixed conflict setups
/// (a third replica's version already on the server, so that a racer pulls, loses a conflict,
/// and is then rejected).
pub fn exhaustive_cases(len: usize) -> Vec<RaceCase> {
    let set = |t: u8, p: u8, v: u8, ts: i8| Intent::Set { t, p, v, ts };
    let setups: Vec<(Vec<Action>, Vec<(u8, Vec<Intent>)>)> = vec![
        // A: [t0.p (older), t0.q]; B: t0.p (newer) already pushed; C races with A
        (
            vec![
                Action::Commit { r: 1, intents: vec![set(0, 0, 4, 1)] },
                Action::Sync { r: 1 },
            ],
            vec![(0, vec![set(0, 0, 4, -1), set(0, 1, 4, 0)]), (2, vec![set(1, 0, 4, 0)])],
        ),
        // both racers edit the same property with tied timestamps
        (vec![], vec![(0, vec![set(0, 0, 4, 0)]), (2, vec![set(0, 0, 5, 0)])]),
        // delete vs update, with an earlier version to pull
        (
            vec![
                Action::Commit { r: 1, intents: vec![set(0, 0, 1, 0), set(1, 0, 1, 0)] },
                Action::Sync { r: 1 },
                Action::Sync { r: 0 },
                Action::Sync { r: 2 },
                Action::Commit { r: 1, intents: vec![set(1, 1, 4, 1)] },
                Action::Sync { r: 1 },
            ],
            vec![(0, vec![Intent::Delete { t: 0 }]), (2, vec![set(0, 1, 4, 2), set(1, 1, 5, 0)])],
        ),
    ];
    let mut out = vec![];
    for (prior, commits) in setups {
        for bits in 0..(1u32 << len) {
            out.push(RaceCase {
                replicas: 3,
                prior: prior.clone(),
                phases: vec![Phase {
                    commits: commits.clone(),
                    racers: 0b101,
                    schedule: (0..len).map(|i| if bits & (1 << i) != 0 { 255 } else { 0 }).collect(),
                    big: None,
                }],
            });
        }
    }
    out
}

pub fn run(e: &Engine) {
    e.assume("the harness ModelServer is a correct server (atomic requests, linear chain); interleaving granularity = one server request");
    e.assume("replicas use the in-memory storage, so the only scheduling points are server requests");
    let rule = "prior history + 1-3 race phases in which 1-4 replicas call sync concurrently under a generated schedule; \
non-trivial = at least one add_version was answered ExpectedParentVersion; distinct = distinct generated case";
    e.campaign(
        "races",
        rule,
        e.tier.pick(150_000, 3_000_000),
        || race_strategy(4, 6, 0),
        render,
        check_race,
    );
    e.enumerate(
        "two-racers-exhaustive",
        "ALL binary schedules (length 12; thorough 16) of two racing syncs in three fixed conflict setups (a racer that pulls a version, loses a conflict and is then rejected; tied timestamps; delete vs update); oracles as above",
        exhaustive_cases(e.tier.pick(12, 16)),
        render,
        check_race,
    );
    e.assume("races through the real backends: scheduling points are whole Server requests (local server, HTTP, git) or single object-store requests; replicas avoid snapshots");
    e.campaign(
        "races-real-backends",
        "the same race phases with every replica on its own handle of a real backend: local server (one SQLite directory), object-store server (interleaved at single store requests), HTTP client against the harness protocol server; all syncs must succeed, replicas converge to the replay of the chain read through a fresh handle; non-trivial = a version was rejected",
        e.tier.pick(1000, 20_000),
        || real_strategy(&[0, 1, 2]),
        |c| serde_json::json!({"backend": (["local", "object-store", "http", "git-remote"][c.backend as usize % 4]), "race": render(&c.race)}),
        check_race_real,
    );
    e.set_worker_cap(4);
    e.set_shrink_iters(30);
    e.campaign(
        "races-git-remote",
        "as races-real-backends, through the git server with a bare remote and one clone per replica (interleaved at whole Server requests)",
        e.tier.pick(3, 60),
        || real_strategy_git(),
        |c| serde_json::json!({"backend": "git-remote", "race": render(&c.race)}),
        check_race_real,
    );
    e.set_worker_cap(u64::MAX);
    e.set_shrink_iters(4000);
    e.campaign(
        "races-multibatch",
        "as 'races' with pending changes above the batching threshold in the prior history",
        e.tier.pick(300, 3000),
        || race_strategy(3, 4, 4),
        render,
        check_race,
    );
}
