//! C15 — the working set lists exactly the pending tasks, with stable numbering.

use super::common::World;
use crate::engine::exec::block_on;
use crate::engine::model::{task_uuid, Model};
use crate::engine::{CaseReport, CheckResult, Engine, Failure};
use proptest::prelude::*;
use serde::{Deserialize, Serialize};
use std::collections::{BTreeMap, BTreeSet};
use taskchampion::{Operation, Operations, Status, Uuid};

#[derive(Clone, Debug, PartialEq, Eq, Hash, Serialize, Deserialize)]
pub enum Act {
    /// set the status of task t through `Task::set_status` (creating the task if needed);
    /// st: 0 pending, 1 completed, 2 deleted, 3 recurring, 4 unknown
    SetStatus { t: u8, st: u8 },
    /// several status changes in one commit
    Multi { changes: Vec<(u8, u8)> },
    /// create a task without any status property
    CreateBare { t: u8 },
    /// remove the status property through TaskData
    ClearStatus { t: u8 },
    /// delete the task outright
    Delete { t: u8 },
    /// another replica changes the status of / deletes a task and syncs; this replica syncs
    Remote { t: u8, st: u8 },
    Rebuild { renumber: bool },
    Sync,
    Undo,
}

#[derive(Clone, Debug, PartialEq, Eq, Hash, Serialize, Deserialize)]
pub struct Case {
    pub sqlite: bool,
    pub acts: Vec<Act>,
}

const NT: u8 = 6;

pub fn strategy(sqlite_weight: u32) -> BoxedStrategy<Case> {
    (
        prop_oneof![4 => Just(false), sqlite_weight => Just(true)],
        proptest::collection::vec(
            prop_oneof![
                10 => (0..NT, prop_oneof![5 => Just(0u8), 3 => Just(1u8), 1 => Just(2u8), 2 => Just(3u8), 1 => Just(4u8)]).prop_map(|(t, st)| Act::SetStatus { t, st }),
                2 => proptest::collection::vec((0..NT, 0u8..5), 2..5).prop_map(|changes| Act::Multi { changes }),
                1 => (0..NT).prop_map(|t| Act::CreateBare { t }),
                1 => (0..NT).prop_map(|t| Act::ClearStatus { t }),
                2 => (0..NT).prop_map(|t| Act::Delete { t }),
                3 => (0..NT, 0u8..6).prop_map(|(t, st)| Act::Remote { t, st }),
                3 => Just(Act::Rebuild { renumber: false }),
                3 => Just(Act::Rebuild { renumber: true }),
                1 => Just(Act::Sync),
                1 => Just(Act::Undo),
            ],
            1..24,
        ),
    )
        .prop_map(|(sqlite, acts)| Case { sqlite, acts })
        .boxed()
}

fn status_of(st: u8) -> Status {
    match st {
        0 => Status::Pending,
        1 => Status::Completed,
        2 => Status::Deleted,
        3 => Status::Recurring,
        _ => Status::Unknown("frobnicated".into()),
    }
}

fn trimmed(mut ws: Vec<Option<Uuid>>) -> Vec<Option<Uuid>> {
    while ws.len() > 1 && ws.last() == Some(&None) {
        ws.pop();
    }
    ws
}

fn pending_set(tasks: &Model) -> BTreeSet<Uuid> {
    tasks
        .0
        .iter()
        .filter(|(_, p)| matches!(p.get("status").map(|s| s.as_str()), Some("pending") | Some("recurring")))
        .map(|(u, _)| *u)
        .collect()
}

fn positions(ws: &[Option<Uuid>]) -> BTreeMap<Uuid, usize> {
    ws.iter()
        .enumerate()
        .filter_map(|(i, u)| u.map(|u| (u, i)))
        .collect()
}

/// What must hold after a working-set rebuild that started from `before`.
fn check_rebuild(
    before: &[Option<Uuid>],
    after: &[Option<Uuid>],
    tasks: &Model,
    renumber: bool,
    when: &str,
    rep: &mut CaseReport,
) -> Result<bool, Failure> {
    let mode = if renumber { "renumber" } else { "keep-numbers" };
    crate::ensure!(
        !after.is_empty() && after[0].is_none(),
        format!("ws-slot0/{mode}"),
        "{when}: position 0 of the working set is not empty: {after:?}"
    );
    let want = pending_set(tasks);
    let mut seen = BTreeSet::new();
    for u in after.iter().flatten() {
        crate::ensure!(
            seen.insert(*u),
            format!("ws-duplicate/{mode}"),
            "{when}: task {u} occurs twice in the working set {after:?}"
        );
    }
    crate::ensure!(
        seen == want,
        format!("ws-membership/{mode}"),
        "{when}: working set {after:?} does not list exactly the pending/recurring tasks {want:?}"
    );
    let bpos = positions(before);
    let apos = positions(after);
    let survivors: Vec<Uuid> = bpos.keys().filter(|u| apos.contains_key(u)).copied().collect();
    let newcomers: Vec<Uuid> = apos.keys().filter(|u| !bpos.contains_key(u)).copied().collect();
    // classification of the starting point
    let had_gap = before[1..].iter().any(|e| e.is_none());
    let had_stale = before.iter().flatten().any(|u| !want.contains(u));
    let had_missing_task = before.iter().flatten().any(|u| !tasks.0.contains_key(u));
    if had_gap {
        rep.class(if renumber { "renumber-from-gap" } else { "keep-from-gap" });
    }
    if had_stale {
        rep.class(if renumber { "renumber-with-stale-entry" } else { "keep-with-stale-entry" });
    }
    if had_missing_task {
        rep.class(if renumber { "renumber-with-entry-whose-task-is-gone" } else { "keep-with-entry-whose-task-is-gone" });
    }
    if !renumber {
        for u in &survivors {
            crate::ensure!(
                bpos[u] == apos[u],
                "ws-number-changed/keep-numbers",
                "{when}: task {u} stayed in the working set but its number changed from {} to {} although renumbering was not requested\nbefore {before:?}\nafter  {after:?}",
                bpos[u],
                apos[u]
            );
        }
        let max_surv = survivors.iter().map(|u| apos[u]).max().unwrap_or(0);
        for u in &newcomers {
            crate::ensure!(
                apos[u] > max_surv,
                "ws-newcomer-position/keep-numbers",
                "{when}: newcomer {u} got number {} which is not after all numbers in use ({max_surv})\nbefore {before:?}\nafter  {after:?}",
                apos[u]
            );
        }
    } else {
        let n = want.len();
        crate::ensure!(
            after.len() == n + 1 && after[1..].iter().all(|e| e.is_some()),
            "ws-gaps/renumber",
            "{when}: after renumbering the {n} tasks do not occupy 1..={n} without gaps: {after:?} (before: {before:?})"
        );
        let mut surv_sorted = survivors.clone();
        surv_sorted.sort_by_key(|u| bpos[u]);
        let after_order: Vec<usize> = surv_sorted.iter().map(|u| apos[u]).collect();
        crate::ensure!(
            after_order.windows(2).all(|w| w[0] < w[1]),
            "ws-order/renumber",
            "{when}: renumbering changed the relative order of the remaining tasks\nbefore {before:?}\nafter  {after:?}"
        );
        let max_surv = survivors.iter().map(|u| apos[u]).max().unwrap_or(0);
        for u in &newcomers {
            crate::ensure!(
                apos[u] > max_surv,
                "ws-newcomer-position/renumber",
                "{when}: newcomer {u} was numbered {} before a remaining task ({max_surv})",
                apos[u]
            );
        }
    }
    Ok(had_gap || had_stale || had_missing_task)
}

/// What must hold after a commit: nobody moves; tasks that became pending/recurring in this
/// commit are appended after all numbers in use.
fn check_commit(
    before: &[Option<Uuid>],
    after: &[Option<Uuid>],
    ops: &[Operation],
    when: &str,
) -> Result<(), Failure> {
    let is_pr = |v: &Option<String>| matches!(v.as_deref(), Some("pending") | Some("recurring"));
    let mut became: BTreeSet<Uuid> = BTreeSet::new();
    for op in ops {
        if let Operation::Update {
            uuid,
            property,
            value,
            old_value,
            ..
        } = op
        {
            if property == "status" && !is_pr(old_value) && is_pr(value) {
                became.insert(*uuid);
            }
        }
    }
    let bpos = positions(before);
    let apos = positions(after);
    for (u, i) in &bpos {
        crate::ensure!(
            apos.get(u) == Some(i),
            "ws-commit-moved",
            "{when}: a commit moved or dropped working-set entry {u} (was {i}, now {:?})\nbefore {before:?}\nafter  {after:?}",
            apos.get(u)
        );
    }
    let max_before = bpos.values().copied().max().unwrap_or(0);
    for u in &became {
        match apos.get(u) {
            None => crate::fail!(
                "ws-commit-not-added",
                "{when}: task {u} became pending in this commit but is not in the working set {after:?}"
            ),
            Some(i) => {
                if !bpos.contains_key(u) {
                    crate::ensure!(
                        *i > max_before,
                        "ws-commit-position",
                        "{when}: task {u} became pending and was added at {i}, not after all numbers in use ({max_before})\nbefore {before:?}\nafter  {after:?}"
                    );
                }
            }
        }
    }
    for u in apos.keys() {
        crate::ensure!(
            bpos.contains_key(u) || became.contains(u),
            "ws-commit-extra",
            "{when}: the commit added {u} to the working set although it did not become pending in it"
        );
    }
    let mut seen = BTreeSet::new();
    for u in after.iter().flatten() {
        crate::ensure!(seen.insert(*u), "ws-duplicate/commit", "{when}: {u} twice in {after:?}");
    }
    Ok(())
}

pub fn check_case(c: &Case) -> CheckResult {
    let mut rep = CaseReport::default();
    let mut w = World::new(2);
    if c.sqlite {
        w.make_sqlite(0)?;
        rep.class("sqlite");
    }
    let mut nontrivial = false;
    for (ai, a) in c.acts.iter().enumerate() {
        let when = format!("action {ai} ({a:?})");
        let before = trimmed(w.reps[0].working_set());
        let api = |e: taskchampion::Error| Failure::new("api-error", format!("{e}"));
        match a {
            Act::SetStatus { .. } | Act::Multi { .. } | Act::CreateBare { .. } | Act::ClearStatus { .. } | Act::Delete { .. } => {
                let mut ops = Operations::new();
                ops.push(Operation::UndoPoint);
                let changes: Vec<(u8, Option<u8>)> = match a {
                    Act::SetStatus { t, st } => vec![(*t, Some(*st))],
                    Act::Multi { changes } => changes.iter().map(|(t, s)| (*t, Some(*s))).collect(),
                    _ => vec![],
                };
                let mut held: BTreeMap<u8, taskchampion::Task> = BTreeMap::new();
                for (t, st) in changes {
                    let uuid = task_uuid(t as usize);
                    if !held.contains_key(&t) {
                        let task = block_on(w.reps[0].replica.create_task(uuid, &mut ops)).map_err(api)?;
                        held.insert(t, task);
                    }
                    held.get_mut(&t)
                        .unwrap()
                        .set_status(status_of(st.unwrap()), &mut ops)
                        .map_err(api)?;
                }
                match a {
                    Act::CreateBare { t } => {
                        let uuid = task_uuid(*t as usize);
                        if block_on(w.reps[0].replica.get_task_data(uuid)).map_err(api)?.is_none() {
                            taskchampion::TaskData::create(uuid, &mut ops);
                        }
                    }
                    Act::ClearStatus { t } => {
                        let uuid = task_uuid(*t as usize);
                        if let Some(mut td) = block_on(w.reps[0].replica.get_task_data(uuid)).map_err(api)? {
                            td.update("status", None, &mut ops);
                        }
                    }
                    Act::Delete { t } => {
                        let uuid = task_uuid(*t as usize);
                        if let Some(mut td) = block_on(w.reps[0].replica.get_task_data(uuid)).map_err(api)? {
                            td.delete(&mut ops);
                        }
                    }
                    _ => {}
                }
                w.reps[0]
                    .commit(ops.clone())
                    .map_err(|e| Failure::new("commit-error", format!("{when}: {e}")))?;
                let after = trimmed(w.reps[0].working_set());
                check_commit(&before, &after, &ops, &when)?;
            }
            Act::Remote { t, st } => {
                // the other replica first learns the current state, then changes the task
                w.sync(0).map_err(|e| Failure::new("sync-error", format!("{when}: {e}")))?;
                w.sync(1).map_err(|e| Failure::new("sync-error", format!("{when}: {e}")))?;
                let before = trimmed(w.reps[0].working_set());
                let uuid = task_uuid(*t as usize);
                let mut ops = Operations::new();
                if *st == 5 {
                    if let Some(mut td) = block_on(w.reps[1].replica.get_task_data(uuid)).map_err(api)? {
                        td.delete(&mut ops);
                    }
                } else {
                    let mut task = block_on(w.reps[1].replica.create_task(uuid, &mut ops)).map_err(api)?;
                    task.set_status(status_of(*st), &mut ops).map_err(api)?;
                }
                w.reps[1].commit(ops).map_err(|e| Failure::new("commit-error", format!("{when}: {e}")))?;
                w.sync(1).map_err(|e| Failure::new("sync-error", format!("{when}: {e}")))?;
                w.sync(0).map_err(|e| Failure::new("sync-error", format!("{when}: {e}")))?;
                let after = trimmed(w.reps[0].working_set());
                let tasks = w.reps[0].tasks();
                if check_rebuild(&before, &after, &tasks, false, &when, &mut rep)? {
                    nontrivial = true;
                }
                rep.class("remote-change-arrives-by-sync");
            }
            Act::Sync => {
                w.sync(0).map_err(|e| Failure::new("sync-error", format!("{when}: {e}")))?;
                let after = trimmed(w.reps[0].working_set());
                let tasks = w.reps[0].tasks();
                if check_rebuild(&before, &after, &tasks, false, &when, &mut rep)? {
                    nontrivial = true;
                }
            }
            Act::Undo => {
                let ops = block_on(w.reps[0].replica.get_undo_operations()).map_err(api)?;
                let ok = block_on(w.reps[0].replica.commit_reversed_operations(ops)).map_err(api)?;
                if ok {
                    let after = trimmed(w.reps[0].working_set());
                    let tasks = w.reps[0].tasks();
                    if check_rebuild(&before, &after, &tasks, false, &when, &mut rep)? {
                        nontrivial = true;
                    }
                    rep.class("rebuild-after-undo");
                }
            }
            Act::Rebuild { renumber } => {
                block_on(w.reps[0].replica.rebuild_working_set(*renumber))
                    .map_err(|e| Failure::new("rebuild-error", format!("{when}: {e}")))?;
                let after = trimmed(w.reps[0].working_set());
                let tasks = w.reps[0].tasks();
                if check_rebuild(&before, &after, &tasks, *renumber, &when, &mut rep)? {
                    nontrivial = true;
                }
                // pending_task_data agrees
                let pend: BTreeSet<Uuid> = block_on(w.reps[0].replica.pending_task_data())
                    .map_err(api)?
                    .iter()
                    .map(|t| t.get_uuid())
                    .collect();
                crate::ensure!(
                    pend == pending_set(&tasks),
                    "pending-task-data",
                    "{when}: pending_task_data lists {pend:?}, the pending/recurring tasks are {:?}",
                    pending_set(&tasks)
                );
                // a second rebuild in the same mode is a no-op
                block_on(w.reps[0].replica.rebuild_working_set(*renumber))
                    .map_err(|e| Failure::new("rebuild-error", format!("{when}: {e}")))?;
                let again = trimmed(w.reps[0].working_set());
                crate::ensure!(
                    again == after,
                    "ws-rebuild-not-idempotent",
                    "{when}: rebuilding twice in a row changed the working set: {after:?} -> {again:?}"
                );
            }
        }
    }
    rep.nontrivial = nontrivial;
    Ok(rep)
}

// ---------------------------------------------------------------------------------------------
// arbitrary prior state, written through the storage API

#[derive(Clone, Debug, PartialEq, Eq, Hash, Serialize, Deserialize)]
pub struct PriorCase {
    pub sqlite: bool,
    /// status of task i: 0 pending, 1 completed, 2 deleted, 3 recurring, 4 unknown, 5 no status
    /// property, 6 = the task does not exist
    pub tasks: Vec<u8>,
    /// working-set slots 1..: Some(i) = task i (each task at most once), None = gap
    pub ws: Vec<Option<u8>>,
    pub rebuilds: Vec<bool>,
}

pub fn prior_strategy() -> BoxedStrategy<PriorCase> {
    (
        any::<bool>(),
        proptest::collection::vec(prop_oneof![4 => Just(0u8), 2 => Just(1u8), 1 => Just(2u8), 2 => Just(3u8), 1 => Just(4u8), 1 => Just(5u8), 2 => Just(6u8)], 1..=8),
        proptest::collection::vec(proptest::option::weighted(0.75, 0u8..8), 0..=8),
        proptest::collection::vec(any::<bool>(), 1..=3),
    )
        .prop_map(|(sqlite, tasks, ws, rebuilds)| {
            // each task at most once in the prior working set
            let mut seen = BTreeSet::new();
            let n = tasks.len() as u8;
            let ws = ws.into_iter().map(|e| e.map(|t| t % n).filter(|t| seen.insert(*t))).collect();
            PriorCase { sqlite, tasks, ws, rebuilds }
        })
        .boxed()
}

pub fn check_prior(c: &PriorCase) -> CheckResult {
    use crate::engine::rep::{open_sqlite, Rep};
    use taskchampion::storage::{inmemory::InMemoryStorage, Storage, TaskMap};
    let mut rep = CaseReport::default();
    let dir = tempfile::TempDir::new().map_err(|e| Failure::new("infra", format!("{e}")))?;
    let mut storage: Box<dyn Storage> = if c.sqlite {
        rep.class("sqlite");
        Box::new(open_sqlite(dir.path()).map_err(|e| Failure::new("sqlite-open", format!("{e}")))?)
    } else {
        Box::new(InMemoryStorage::new())
    };
    let st = |e: taskchampion::Error| Failure::new("storage-error", format!("preparing the prior state: {e}"));
    block_on(async {
        let mut txn = storage.txn().await?;
        for (i, s) in c.tasks.iter().enumerate() {
            let mut m = TaskMap::new();
            match s {
                0 => m.insert("status".into(), "pending".into()),
                1 => m.insert("status".into(), "completed".into()),
                2 => m.insert("status".into(), "deleted".into()),
                3 => m.insert("status".into(), "recurring".into()),
                4 => m.insert("status".into(), "frobnicated".into()),
                5 => m.insert("description".into(), "no status".into()),
                _ => continue,
            };
            txn.set_task(task_uuid(i), m).await?;
        }
        for (k, e) in c.ws.iter().enumerate() {
            // every slot is first filled, then blanked where the case has a gap
            let idx = txn.add_to_working_set(task_uuid(e.map(|t| t as usize).unwrap_or(100 + k))).await?;
            if e.is_none() {
                txn.set_working_set_item(idx, None).await?;
            }
        }
        txn.commit().await
    })
    .map_err(st)?;
    let mut r = Rep::with_storage(storage, &super::common::pool(), false);
    let mut nontrivial = false;
    for (k, renumber) in c.rebuilds.iter().enumerate() {
        let when = format!("rebuild {k} (renumber = {renumber}) from a prior state written through the storage API");
        let before = trimmed(r.working_set());
        let tasks = r.tasks();
        let missing_pending = pending_set(&tasks).iter().filter(|u| !before.contains(&Some(**u))).count();
        let freed = before.iter().skip(1).filter(|e| e.map(|u| !pending_set(&tasks).contains(&u)).unwrap_or(true)).count();
        block_on(r.replica.rebuild_working_set(*renumber)).map_err(|e| Failure::new("rebuild-error", format!("{when}: {e}")))?;
        let after = trimmed(r.working_set());
        if check_rebuild(&before, &after, &tasks, *renumber, &when, &mut rep)? {
            nontrivial = true;
        }
        if missing_pending >= 1 {
            rep.class("pending-tasks-missing-from-the-prior-working-set");
        }
        if missing_pending >= 2 && freed >= 1 && missing_pending > freed {
            rep.class("more-newcomers-than-freed-slots");
        }
        block_on(r.replica.rebuild_working_set(*renumber)).map_err(|e| Failure::new("rebuild-error", format!("{when}: {e}")))?;
        let again = trimmed(r.working_set());
        crate::ensure!(
            again == after,
            "ws-rebuild-not-idempotent",
            "{when}: rebuilding twice in a row changed the working set: {after:?} -> {again:?}"
        );
    }
    rep.nontrivial = nontrivial;
    Ok(rep)
}

pub fn run(e: &Engine) {
    e.assume("'newcomers are added after all numbers in use' is read as: after every number held by a task that remains (a newcomer may reuse the number of a dropped trailing entry, which both storages do)");
    e.assume("order among several newcomers is unspecified and not asserted");
    e.campaign(
        "working-set-histories",
        "1-23 actions on 6 tasks: Task::set_status to any status (single or several per commit), bare creation, status removal, outright delete, remote status change/deletion arriving by sync, undo, sync, rebuild with and without renumbering; both storages; relational oracle old working set -> new working set; non-trivial = a rebuild started from a working set with a gap, an entry whose task is no longer pending, or an entry whose task no longer exists",
        e.tier.pick(60_000, 1_500_000),
        || strategy(1),
        |c| serde_json::to_value(c).unwrap(),
        check_case,
    );
    e.campaign(
        "arbitrary-prior-state",
        "a task set (1-8 tasks, any status, without status, or absent) and a prior working set (gaps, entries of finished / status-less / non-existent tasks, pending tasks that are NOT listed) written directly through the storage API, then 1-3 rebuilds in generated modes, each checked with the relational oracle and for idempotence; both storages; non-trivial as above",
        e.tier.pick(40_000, 1_000_000),
        prior_strategy,
        |c| serde_json::to_value(c).unwrap(),
        check_prior,
    );
}
