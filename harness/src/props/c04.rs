//! C04 — an interrupted sync loses nothing and can simply be repeated.
//!
//! For each generated scenario the sync of replica X is first run fault-free in counting mode;
//! then the scenario is re-run once for EVERY storage-call index x {error, process stop} and
//! EVERY server-request index x {error before effect, effect then lost reply}, and for a few
//! generated sequences of consecutive faults.

use super::c02::check_nothing_sent_twice;
use super::common::*;
use crate::engine::model::{parse_version, Model, MOp};
use crate::engine::mserver::{Req, ServerFault};
use crate::engine::obs::StorageFault;
use crate::engine::{hash_of, CaseReport, CheckResult, Engine, Failure};
use proptest::prelude::*;
use serde::{Deserialize, Serialize};

#[derive(Clone, Debug, PartialEq, Eq, Hash, Serialize, Deserialize)]
pub struct Scenario {
    pub replicas: u8,
    pub prior: Vec<Action>,
    /// the replica whose sync is interrupted
    pub x: u8,
    /// committed by another replica and synced, so that X has versions to pull
    pub other_commit: Vec<Intent>,
    /// committed by X, so that X has something to push
    pub x_commit: Vec<Intent>,
    /// X's pending changes exceed the batching threshold
    pub big: bool,
    /// actions after the retry
    pub tail: Vec<Action>,
    /// X uses the SQLite storage and is closed/reopened after each fault
    pub sqlite: bool,
    /// generated sequences of consecutive faults (each entry: fractions of S/Q and kinds)
    pub multi: Vec<Vec<(bool, u16, bool)>>,
    /// changes to a task that only X ever touches, committed together with `x_commit`
    #[serde(default)]
    pub x_private: Vec<Intent>,
    /// changes to that private task committed by X between the interrupted sync and its
    /// repetition (in the fault-free run: between the sync and a second sync)
    #[serde(default)]
    pub between: Vec<Intent>,
}

#[derive(Clone, Copy, Debug, PartialEq, Eq, Hash, Serialize, Deserialize)]
pub enum Fault {
    Storage(usize, StorageFault),
    Server(usize, ServerFault),
}

/// Task 4 of the pool is touched by nobody but X (the shared generators use tasks 0 and 1), so
/// the operations these intents become do not depend on what X has pulled.
const PRIVATE: u8 = 4;

fn private_intent() -> BoxedStrategy<Intent> {
    prop_oneof![
        2 => Just(Intent::Create { t: PRIVATE }),
        3 => (0u8..2, 0u8..7, -1i8..2).prop_map(|(p, v, ts)| Intent::Set { t: PRIVATE, p, v, ts }),
        3 => Just(Intent::Delete { t: PRIVATE }),
    ]
    .boxed()
}

pub fn strategy(sqlite_weight: u32) -> BoxedStrategy<Scenario> {
    (2u8..=3)
        .prop_flat_map(move |replicas| {
            (
                proptest::collection::vec(action_strategy(replicas, 2, 0), 0..=6),
                0..replicas,
                proptest::collection::vec(intent_strategy(2), 1..=3),
                proptest::collection::vec(intent_strategy(2), 1..=3),
                prop_oneof![5 => Just(false), 1 => Just(true)],
                proptest::collection::vec(action_strategy(replicas, 2, 0), 0..=4),
                prop_oneof![10 => Just(false), sqlite_weight => Just(true)],
                proptest::collection::vec(
                    proptest::collection::vec((any::<bool>(), any::<u16>(), any::<bool>()), 2..=3),
                    0..=3,
                ),
                (
                    proptest::collection::vec(private_intent(), 0..=2),
                    proptest::collection::vec(private_intent(), 0..=2),
                ),
            )
                .prop_map(
                    move |(prior, x, other_commit, x_commit, big, tail, sqlite, multi, (x_private, between))| Scenario {
                        replicas,
                        prior,
                        x,
                        other_commit,
                        x_commit,
                        big,
                        tail,
                        sqlite,
                        multi,
                        x_private,
                        between,
                    },
                )
        })
        .boxed()
}

struct Outcome {
    fin: Model,
    chain_ops: Vec<MOp>,
    storage_calls: usize,
    server_requests: usize,
    /// for each injected fault: did it lie in the window "server accepted a version of this
    /// sync, local transaction not yet committed"?
    in_window: Vec<bool>,
    fired: Vec<bool>,
}

fn chain_ops(w: &World) -> Result<Vec<MOp>, Failure> {
    let st = w.server.state.borrow();
    let mut out = vec![];
    for v in &st.versions {
        out.extend(parse_version(&v.bytes).map_err(|e| Failure::new("bad-version", e))?);
    }
    Ok(out)
}

fn run(sc: &Scenario, faults: &[Fault]) -> Result<Outcome, Failure> {
    let n = sc.replicas as usize;
    let x = sc.x as usize % n;
    let other = (x + 1) % n;
    let mut w = World::new(n);
    for r in &mut w.realizers {
        r.stale_old = true;
    }
    if sc.sqlite {
        w.make_sqlite(x)?;
    }
    let mut rep = CaseReport::default();
    let mut flags = RunFlags::default();
    run_actions(&mut w, &sc.prior, &mut rep, &mut flags)?;
    // make sure X has something to pull and something to push
    w.commit(other, &sc.other_commit)?;
    w.sync(other)
        .map_err(|e| Failure::new("sync-error", format!("sync of replica {other} failed: {e}")))?;
    if sc.big {
        let mut local = w.reps[x].tasks();
        let mut ops = vec![];
        w.realizers[x].realize_big(0, 3, 340, &sc.x_commit, &[], &[], &mut local, &mut ops);
        w.reps[x]
            .commit(ops)
            .map_err(|e| Failure::new("commit-error", format!("big commit failed: {e}")))?;
    } else {
        w.commit(x, &sc.x_commit)?;
    }
    if !sc.x_private.is_empty() {
        w.commit(x, &sc.x_private)?;
    }

    let mut in_window = vec![];
    let mut fired = vec![];
    let mut storage_calls = 0;
    let mut server_requests = 0;
    if faults.is_empty() {
        // the uninterrupted sync (what the faults are injected into in the other runs)
        w.reps[x].probe.arm(None, false);
        w.ctls[x].arm(vec![]);
        let World { reps, handles, .. } = &mut w;
        match reps[x].sync_abortable(&mut handles[x], false) {
            Some(Ok(())) => {}
            other => crate::fail!(
                "sync-error",
                "the uninterrupted sync of replica {x} failed: {:?}",
                other.map(|r| r.map_err(|e| e.to_string()))
            ),
        }
        storage_calls = w.reps[x].probe.calls();
        server_requests = w.ctls[x].requests.get();
        w.reps[x].probe.disarm();
        w.ctls[x].disarm();
    }
    // the interrupted attempts
    for (fi, f) in faults.iter().enumerate() {
        let commits_before = w.reps[x].probe.commits();
        let log_before = w.server.state.borrow().log.len();
        match f {
            Fault::Storage(i, k) => {
                w.reps[x].probe.arm(Some((*i, *k)), false);
                w.ctls[x].arm(vec![]);
            }
            Fault::Server(j, k) => {
                w.reps[x].probe.arm(None, false);
                w.ctls[x].arm(vec![(*j, *k)]);
            }
        }
        let res = {
            let World { reps, handles, .. } = &mut w;
            reps[x].sync_abortable(&mut handles[x], false)
        };
        let did_fire = match f {
            Fault::Storage(..) => w.reps[x].probe.fired(),
            Fault::Server(j, _) => w.ctls[x].requests.get() > *j,
        };
        fired.push(did_fire);
        w.reps[x].probe.disarm();
        w.ctls[x].disarm();
        // A sync that reports success although a call failed is not a violation by itself;
        // what it left behind is judged by the invariant below.
        let _ = &res;
        // was the fault inside the critical window?
        let accepted = {
            let st = w.server.state.borrow();
            st.log[log_before..]
                .iter()
                .any(|r| matches!(r, Req::AddVersion { client, accepted: Ok(_), .. } if *client == x))
        };
        let committed = w.reps[x].probe.commits() > commits_before;
        in_window.push(did_fire && accepted && !committed);
        // restart
        if sc.sqlite {
            w.reopen(x)?;
        }
        // the stored data must satisfy the replica invariant against the real chain
        w.check_replica_invariant(x, &format!("after interrupted sync attempt {fi} ({f:?})"))
            .map_err(|mut e| {
                e.signature = format!("after-fault:{}", e.signature);
                e
            })?;
    }
    // local changes made between the interruption and the repetition
    if !sc.between.is_empty() {
        w.commit(x, &sc.between)?;
    }
    // the clean (re)try
    w.reps[x].probe.arm(None, false);
    w.ctls[x].arm(vec![]);
    {
        let World { reps, handles, .. } = &mut w;
        match reps[x].sync_abortable(&mut handles[x], false) {
            Some(Ok(())) => {}
            Some(Err(e)) => {
                let kind = if format!("{e:?}").contains("OutOfSync") {
                    "retry-out-of-sync"
                } else {
                    "retry-error"
                };
                crate::fail!(
                    kind,
                    "after faults {faults:?} the repeated sync of replica {x} failed: {e:?}"
                );
            }
            None => unreachable!(),
        }
    }
    w.reps[x].probe.disarm();
    w.check_replica_invariant(x, "after the repeated sync")?;
    w.check_working_set_after_sync(x, &format!("after faults {faults:?} and the repeated sync"))?;
    run_actions(&mut w, &sc.tail, &mut rep, &mut flags)?;
    let fin = w.quiesce_and_check()?;
    check_nothing_sent_twice(&w)?;
    let chain_ops = chain_ops(&w)?;
    Ok(Outcome {
        fin,
        chain_ops,
        storage_calls,
        server_requests,
        in_window,
        fired,
    })
}

fn compare(base: &Outcome, got: &Outcome, faults: &[Fault]) -> Result<(), Failure> {
    crate::ensure!(
        base.fin == got.fin,
        "differs-from-fault-free-run",
        "with faults {faults:?} the converged state is\n  {}\nbut the fault-free run of the same scenario converges to\n  {}",
        got.fin.render(),
        base.fin.render()
    );
    crate::ensure!(
        base.chain_ops == got.chain_ops,
        "chain-differs-from-fault-free-run",
        "with faults {faults:?} the operations on the server chain differ from the fault-free run: {} vs {} operations (a local change was lost or took effect twice)",
        got.chain_ops.len(),
        base.chain_ops.len()
    );
    Ok(())
}

pub fn check_scenario(sc: &Scenario) -> CheckResult {
    let mut rep = CaseReport::default();
    let base = run(sc, &[])?;
    let s = base.storage_calls;
    let q = base.server_requests;
    let mut points: Vec<Vec<Fault>> = vec![];
    for i in 0..s {
        points.push(vec![Fault::Storage(i, StorageFault::Err)]);
        points.push(vec![Fault::Storage(i, StorageFault::Stop)]);
    }
    for j in 0..q {
        points.push(vec![Fault::Server(j, ServerFault::ErrBefore)]);
        points.push(vec![Fault::Server(j, ServerFault::LostReply)]);
    }
    // generated sequences of consecutive faults
    for seq in &sc.multi {
        let mut fs = vec![];
        for (storage, frac, kind) in seq {
            if *storage && s > 0 {
                let i = (*frac as usize * s) >> 16;
                fs.push(Fault::Storage(
                    i,
                    if *kind { StorageFault::Err } else { StorageFault::Stop },
                ));
            } else if q > 0 {
                let j = (*frac as usize * q) >> 16;
                fs.push(Fault::Server(
                    j,
                    if *kind { ServerFault::ErrBefore } else { ServerFault::LostReply },
                ));
            }
        }
        if !fs.is_empty() {
            points.push(fs);
        }
    }
    // SQLite runs are ~100x slower: thin the single-fault table deterministically
    let stride = if sc.sqlite { 3 } else { 1 };
    for (pi, fs) in points.iter().enumerate() {
        if fs.len() == 1 && pi % stride != 0 && sc.sqlite {
            continue;
        }
        let out = run(sc, fs)?;
        compare(&base, &out, fs)?;
        rep.extra_evals += 1;
        if out.in_window.iter().any(|b| *b) {
            rep.extra_nontrivial.push(hash_of(&format!("{fs:?}")));
            for (f, w) in fs.iter().zip(&out.in_window) {
                if *w {
                    rep.class(match f {
                        Fault::Storage(_, StorageFault::Err) => "window:storage-error",
                        Fault::Storage(_, StorageFault::Stop) => "window:process-stop",
                        Fault::Server(_, ServerFault::ErrBefore) => "window:request-error",
                        Fault::Server(_, ServerFault::LostReply) => "window:lost-reply",
                    });
                }
            }
        }
        if fs.len() > 1 {
            rep.class("several-consecutive-faults");
        }
        if out.fired.iter().all(|f| !*f) {
            rep.class("fault-point-not-reached");
        }
    }
    rep.class_if(sc.sqlite, "sqlite-with-reopen");
    rep.class_if(sc.big, "multi-batch-push");
    rep.nontrivial = !rep.extra_nontrivial.is_empty();
    Ok(rep)
}

pub fn render(sc: &Scenario) -> serde_json::Value {
    serde_json::json!({
        "replicas": sc.replicas,
        "prior": sc.prior.iter().map(render_action).collect::<Vec<_>>(),
        "interrupted_replica": sc.x,
        "other_replica_commit": sc.other_commit.iter().map(render_intent).collect::<Vec<_>>(),
        "x_commit": sc.x_commit.iter().map(render_intent).collect::<Vec<_>>(),
        "x_pending_over_1MB": sc.big,
        "x_private_task_changes": sc.x_private.iter().map(render_intent).collect::<Vec<_>>(),
        "x_changes_between_interruption_and_repetition": sc.between.iter().map(render_intent).collect::<Vec<_>>(),
        "tail": sc.tail.iter().map(render_action).collect::<Vec<_>>(),
        "storage": if sc.sqlite { "sqlite (closed and reopened after each fault)" } else { "in-memory" },
        "faults": "every storage call x {error, stop}, every server request x {error before, lost reply}, plus generated multi-fault sequences",
    })
}

pub fn run_prop(e: &Engine) {
    e.assume("'process stop' is modelled by dropping the sync future at a storage call (the transaction is abandoned uncommitted); real kills are covered by C06");
    e.assume("no undo on the faulted replica between the fault and the retry (an accepted version cannot be withdrawn, by design)");
    let rule = "scenario = generated prior history leaving replica X with versions to pull and operations to push (1 in 6 above the batching threshold, some on SQLite with reopen), plus changes to a task only X touches, some committed before the sync and some between the interruption and the repetition (fault-free run: sync, those changes, second sync); for EACH scenario every storage-call index x {error, stop} and every server-request index x {error before effect, lost reply} is injected, plus generated sequences of 2-3 consecutive faults; evaluations count scenario x fault point runs; non-trivial = the fault fell after the server accepted a version of this sync and before the local commit";
    e.set_shrink_iters(300);
    e.campaign(
        "fault-points",
        rule,
        e.tier.pick(120, 3000),
        || strategy(1),
        render,
        check_scenario,
    );
}
