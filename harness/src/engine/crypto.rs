//! Independent implementation of the documented encryption scheme (docs/src/encryption.md):
//! PBKDF2-HMAC-SHA256 key derivation and ChaCha20-Poly1305 (RFC 8439), written out here so that
//! the oracle shares neither code nor parameters with the crate under test.  Self-tested against
//! the RFC vectors at start-up (`self_test`).

// ---------------------------------------------------------------------------------- SHA-256

const K: [u32; 64] = [
    0x428a2f98, 0x71374491, 0xb5c0fbcf, 0xe9b5dba5, 0x3956c25b, 0x59f111f1, 0x923f82a4, 0xab1c5ed5,
    0xd807aa98, 0x12835b01, 0x243185be, 0x550c7dc3, 0x72be5d74, 0x80deb1fe, 0x9bdc06a7, 0xc19bf174,
    0xe49b69c1, 0xefbe4786, 0x0fc19dc6, 0x240ca1cc, 0x2de92c6f, 0x4a7484aa, 0x5cb0a9dc, 0x76f988da,
    0x983e5152, 0xa831c66d, 0xb00327c8, 0xbf597fc7, 0xc6e00bf3, 0xd5a79147, 0x06ca6351, 0x14292967,
    0x27b70a85, 0x2e1b2138, 0x4d2c6dfc, 0x53380d13, 0x650a7354, 0x766a0abb, 0x81c2c92e, 0x92722c85,
    0xa2bfe8a1, 0xa81a664b, 0xc24b8b70, 0xc76c51a3, 0xd192e819, 0xd6990624, 0xf40e3585, 0x106aa070,
    0x19a4c116, 0x1e376c08, 0x2748774c, 0x34b0bcb5, 0x391c0cb3, 0x4ed8aa4a, 0x5b9cca4f, 0x682e6ff3,
    0x748f82ee, 0x78a5636f, 0x84c87814, 0x8cc70208, 0x90befffa, 0xa4506ceb, 0xbef9a3f7, 0xc67178f2,
];

const H0: [u32; 8] = [
    0x6a09e667, 0xbb67ae85, 0x3c6ef372, 0xa54ff53a, 0x510e527f, 0x9b05688c, 0x1f83d9ab, 0x5be0cd19,
];

#[inline]
fn compress(state: &mut [u32; 8], block: &[u8; 64]) {
    let mut w = [0u32; 64];
    for i in 0..16 {
        w[i] = u32::from_be_bytes([block[4 * i], block[4 * i + 1], block[4 * i + 2], block[4 * i + 3]]);
    }
    for i in 16..64 {
        let s0 = w[i - 15].rotate_right(7) ^ w[i - 15].rotate_right(18) ^ (w[i - 15] >> 3);
        let s1 = w[i - 2].rotate_right(17) ^ w[i - 2].rotate_right(19) ^ (w[i - 2] >> 10);
        w[i] = w[i - 16]
            .wrapping_add(s0)
            .wrapping_add(w[i - 7])
            .wrapping_add(s1);
    }
    let [mut a, mut b, mut c, mut d, mut e, mut f, mut g, mut h] = *state;
    for i in 0..64 {
        let s1 = e.rotate_right(6) ^ e.rotate_right(11) ^ e.rotate_right(25);
        let ch = (e & f) ^ (!e & g);
        let t1 = h
            .wrapping_add(s1)
            .wrapping_add(ch)
            .wrapping_add(K[i])
            .wrapping_add(w[i]);
        let s0 = a.rotate_right(2) ^ a.rotate_right(13) ^ a.rotate_right(22);
        let maj = (a & b) ^ (a & c) ^ (b & c);
        let t2 = s0.wrapping_add(maj);
        h = g;
        g = f;
        f = e;
        e = d.wrapping_add(t1);
        d = c;
        c = b;
        b = a;
        a = t1.wrapping_add(t2);
    }
    for (s, v) in state.iter_mut().zip([a, b, c, d, e, f, g, h]) {
        *s = s.wrapping_add(v);
    }
}

/// SHA-256 continuing from `state` after `prefix_len` bytes already absorbed.
fn sha256_from(mut state: [u32; 8], prefix_len: u64, data: &[u8]) -> [u8; 32] {
    let mut chunks = data.chunks_exact(64);
    for c in &mut chunks {
        compress(&mut state, c.try_into().unwrap());
    }
    let rem = chunks.remainder();
    let total_bits = (prefix_len + data.len() as u64) * 8;
    let mut last = [0u8; 128];
    last[..rem.len()].copy_from_slice(rem);
    last[rem.len()] = 0x80;
    let n = if rem.len() < 56 { 64 } else { 128 };
    last[n - 8..n].copy_from_slice(&total_bits.to_be_bytes());
    compress(&mut state, last[..64].try_into().unwrap());
    if n == 128 {
        compress(&mut state, last[64..].try_into().unwrap());
    }
    let mut out = [0u8; 32];
    for (i, s) in state.iter().enumerate() {
        out[4 * i..4 * i + 4].copy_from_slice(&s.to_be_bytes());
    }
    out
}

pub fn sha256(data: &[u8]) -> [u8; 32] {
    sha256_from(H0, 0, data)
}

// ------------------------------------------------------------------------------ HMAC, PBKDF2

struct HmacKey {
    inner: [u32; 8],
    outer: [u32; 8],
}

impl HmacKey {
    fn new(key: &[u8]) -> Self {
        let mut k = [0u8; 64];
        if key.len() > 64 {
            k[..32].copy_from_slice(&sha256(key));
        } else {
            k[..key.len()].copy_from_slice(key);
        }
        let mut ipad = [0x36u8; 64];
        let mut opad = [0x5cu8; 64];
        for i in 0..64 {
            ipad[i] ^= k[i];
            opad[i] ^= k[i];
        }
        let mut inner = H0;
        compress(&mut inner, &ipad);
        let mut outer = H0;
        compress(&mut outer, &opad);
        HmacKey { inner, outer }
    }
    fn mac(&self, msg: &[u8]) -> [u8; 32] {
        let i = sha256_from(self.inner, 64, msg);
        sha256_from(self.outer, 64, &i)
    }
}

pub fn hmac_sha256(key: &[u8], msg: &[u8]) -> [u8; 32] {
    HmacKey::new(key).mac(msg)
}

/// PBKDF2-HMAC-SHA256 with a 32-byte output (one block).
pub fn pbkdf2_hmac_sha256(secret: &[u8], salt: &[u8], iterations: u32) -> [u8; 32] {
    let key = HmacKey::new(secret);
    let mut first = salt.to_vec();
    first.extend_from_slice(&1u32.to_be_bytes());
    let mut u = key.mac(&first);
    let mut t = u;
    for _ in 1..iterations {
        u = key.mac(&u);
        for (a, b) in t.iter_mut().zip(u.iter()) {
            *a ^= b;
        }
    }
    t
}

// --------------------------------------------------------------------------------- ChaCha20

fn chacha20_block(key: &[u8; 32], counter: u32, nonce: &[u8; 12]) -> [u8; 64] {
    let mut s = [0u32; 16];
    s[0] = 0x61707865;
    s[1] = 0x3320646e;
    s[2] = 0x79622d32;
    s[3] = 0x6b206574;
    for i in 0..8 {
        s[4 + i] = u32::from_le_bytes(key[4 * i..4 * i + 4].try_into().unwrap());
    }
    s[12] = counter;
    for i in 0..3 {
        s[13 + i] = u32::from_le_bytes(nonce[4 * i..4 * i + 4].try_into().unwrap());
    }
    let init = s;
    #[inline]
    fn qr(s: &mut [u32; 16], a: usize, b: usize, c: usize, d: usize) {
        s[a] = s[a].wrapping_add(s[b]);
        s[d] = (s[d] ^ s[a]).rotate_left(16);
        s[c] = s[c].wrapping_add(s[d]);
        s[b] = (s[b] ^ s[c]).rotate_left(12);
        s[a] = s[a].wrapping_add(s[b]);
        s[d] = (s[d] ^ s[a]).rotate_left(8);
        s[c] = s[c].wrapping_add(s[d]);
        s[b] = (s[b] ^ s[c]).rotate_left(7);
    }
    for _ in 0..10 {
        qr(&mut s, 0, 4, 8, 12);
        qr(&mut s, 1, 5, 9, 13);
        qr(&mut s, 2, 6, 10, 14);
        qr(&mut s, 3, 7, 11, 15);
        qr(&mut s, 0, 5, 10, 15);
        qr(&mut s, 1, 6, 11, 12);
        qr(&mut s, 2, 7, 8, 13);
        qr(&mut s, 3, 4, 9, 14);
    }
    let mut out = [0u8; 64];
    for i in 0..16 {
        out[4 * i..4 * i + 4].copy_from_slice(&s[i].wrapping_add(init[i]).to_le_bytes());
    }
    out
}

fn chacha20_xor(key: &[u8; 32], nonce: &[u8; 12], start_counter: u32, data: &mut [u8]) {
    for (i, chunk) in data.chunks_mut(64).enumerate() {
        let ks = chacha20_block(key, start_counter.wrapping_add(i as u32), nonce);
        for (d, k) in chunk.iter_mut().zip(ks.iter()) {
            *d ^= k;
        }
    }
}

// --------------------------------------------------------------------------------- Poly1305

/// Poly1305 with 130-bit arithmetic in three u64 limbs (44/44/42 bits).
fn poly1305(key: &[u8; 32], msg: &[u8]) -> [u8; 16] {
    // r with clamping
    let t0 = u64::from_le_bytes(key[0..8].try_into().unwrap());
    let t1 = u64::from_le_bytes(key[8..16].try_into().unwrap());
    let r0 = t0 & 0xffc0fffffff;
    let r1 = ((t0 >> 44) | (t1 << 20)) & 0xfffffc0ffff;
    let r2 = (t1 >> 24) & 0x00ffffffc0f;
    let s1 = r1 * (5 << 2);
    let s2 = r2 * (5 << 2);
    let (mut h0, mut h1, mut h2) = (0u64, 0u64, 0u64);
    let mut chunks = msg.chunks(16);
    for c in &mut chunks {
        let mut block = [0u8; 17];
        block[..c.len()].copy_from_slice(c);
        block[c.len()] = 1;
        let b0 = u64::from_le_bytes(block[0..8].try_into().unwrap());
        let b1 = u64::from_le_bytes(block[8..16].try_into().unwrap());
        let hibit = block[16] as u64;
        // when the chunk is short the 1 byte is already inside b0/b1
        h0 += b0 & 0xfffffffffff;
        h1 += ((b0 >> 44) | (b1 << 20)) & 0xfffffffffff;
        h2 += ((b1 >> 24) & 0x3ffffffffff) | (hibit << 40);
        let d0 = (h0 as u128) * (r0 as u128) + (h1 as u128) * (s2 as u128) + (h2 as u128) * (s1 as u128);
        let mut d1 = (h0 as u128) * (r1 as u128) + (h1 as u128) * (r0 as u128) + (h2 as u128) * (s2 as u128);
        let mut d2 = (h0 as u128) * (r2 as u128) + (h1 as u128) * (r1 as u128) + (h2 as u128) * (r0 as u128);
        let mut c = (d0 >> 44) as u64;
        h0 = (d0 as u64) & 0xfffffffffff;
        d1 += c as u128;
        c = (d1 >> 44) as u64;
        h1 = (d1 as u64) & 0xfffffffffff;
        d2 += c as u128;
        c = (d2 >> 42) as u64;
        h2 = (d2 as u64) & 0x3ffffffffff;
        h0 += c * 5;
        c = h0 >> 44;
        h0 &= 0xfffffffffff;
        h1 += c;
    }
    // fully carry
    let mut c = h1 >> 44;
    h1 &= 0xfffffffffff;
    h2 += c;
    c = h2 >> 42;
    h2 &= 0x3ffffffffff;
    h0 += c * 5;
    c = h0 >> 44;
    h0 &= 0xfffffffffff;
    h1 += c;
    c = h1 >> 44;
    h1 &= 0xfffffffffff;
    h2 += c;
    c = h2 >> 42;
    h2 &= 0x3ffffffffff;
    h0 += c * 5;
    c = h0 >> 44;
    h0 &= 0xfffffffffff;
    h1 += c;
    // compute h + -p
    let mut g0 = h0 + 5;
    c = g0 >> 44;
    g0 &= 0xfffffffffff;
    let mut g1 = h1 + c;
    c = g1 >> 44;
    g1 &= 0xfffffffffff;
    let g2 = (h2 + c).wrapping_sub(1 << 42);
    // select h if h < p, or h + -p if h >= p
    let mask = (g2 >> 63).wrapping_sub(1); // all ones if g2 did not underflow
    h0 = (h0 & !mask) | (g0 & mask);
    h1 = (h1 & !mask) | (g1 & mask);
    h2 = (h2 & !mask) | (g2 & mask);
    // h = (h + pad)
    let p0 = u64::from_le_bytes(key[16..24].try_into().unwrap());
    let p1 = u64::from_le_bytes(key[24..32].try_into().unwrap());
    // pack h into 128 bits
    let hh: u128 = (h0 as u128) | ((h1 as u128) << 44) | ((h2 as u128) << 88);
    let pad: u128 = (p0 as u128) | ((p1 as u128) << 64);
    hh.wrapping_add(pad).to_le_bytes()
}

// ------------------------------------------------------------------------------------- AEAD

fn aead_mac_data(aad: &[u8], ct: &[u8]) -> Vec<u8> {
    let mut m = Vec::with_capacity(aad.len() + ct.len() + 48);
    m.extend_from_slice(aad);
    m.resize(m.len().div_ceil(16) * 16, 0);
    m.extend_from_slice(ct);
    m.resize(m.len().div_ceil(16) * 16, 0);
    m.extend_from_slice(&(aad.len() as u64).to_le_bytes());
    m.extend_from_slice(&(ct.len() as u64).to_le_bytes());
    m
}

/// RFC 8439 AEAD_CHACHA20_POLY1305: returns ciphertext || tag.
pub fn aead_seal(key: &[u8; 32], nonce: &[u8; 12], aad: &[u8], plaintext: &[u8]) -> Vec<u8> {
    let block0 = chacha20_block(key, 0, nonce);
    let otk: [u8; 32] = block0[..32].try_into().unwrap();
    let mut ct = plaintext.to_vec();
    chacha20_xor(key, nonce, 1, &mut ct);
    let tag = poly1305(&otk, &aead_mac_data(aad, &ct));
    ct.extend_from_slice(&tag);
    ct
}

/// Returns the plaintext, or None if the tag does not verify.
pub fn aead_open(key: &[u8; 32], nonce: &[u8; 12], aad: &[u8], ct_and_tag: &[u8]) -> Option<Vec<u8>> {
    if ct_and_tag.len() < 16 {
        return None;
    }
    let (ct, tag) = ct_and_tag.split_at(ct_and_tag.len() - 16);
    let block0 = chacha20_block(key, 0, nonce);
    let otk: [u8; 32] = block0[..32].try_into().unwrap();
    let want = poly1305(&otk, &aead_mac_data(aad, ct));
    if want != tag {
        return None;
    }
    let mut pt = ct.to_vec();
    chacha20_xor(key, nonce, 1, &mut pt);
    Some(pt)
}

// ----------------------------------------------------------------- the documented envelope

/// encryption.md: AAD = app_id (1) || 16-byte version id; stored form = 0x01 || nonce || ct+tag.
pub fn doc_aad(app_id: u8, version_id: &[u8; 16]) -> [u8; 17] {
    let mut aad = [0u8; 17];
    aad[0] = app_id;
    aad[1..].copy_from_slice(version_id);
    aad
}

pub fn doc_derive_key(secret: &[u8], salt: &[u8]) -> [u8; 32] {
    pbkdf2_hmac_sha256(secret, salt, 600_000)
}

pub fn doc_seal(key: &[u8; 32], version_id: &[u8; 16], nonce: &[u8; 12], payload: &[u8]) -> Vec<u8> {
    let mut out = vec![1u8];
    out.extend_from_slice(nonce);
    out.extend_from_slice(&aead_seal(key, nonce, &doc_aad(1, version_id), payload));
    out
}

pub fn doc_open(key: &[u8; 32], version_id: &[u8; 16], sealed: &[u8]) -> Result<Vec<u8>, String> {
    if sealed.len() < 1 + 12 + 16 {
        return Err(format!("sealed value of {} bytes is shorter than format byte + nonce + tag", sealed.len()));
    }
    if sealed[0] != 1 {
        return Err(format!("format byte is {}, the documented value is 1", sealed[0]));
    }
    let nonce: [u8; 12] = sealed[1..13].try_into().unwrap();
    aead_open(key, &nonce, &doc_aad(1, version_id), &sealed[13..])
        .ok_or_else(|| "the authentication tag does not verify under the documented key derivation and associated data".to_string())
}

fn hex(s: &str) -> Vec<u8> {
    let s: String = s.chars().filter(|c| c.is_ascii_hexdigit()).collect();
    (0..s.len() / 2)
        .map(|i| u8::from_str_radix(&s[2 * i..2 * i + 2], 16).unwrap())
        .collect()
}

/// Known-answer tests: FIPS 180 ("abc"), RFC 4231 (HMAC), RFC 7914 (PBKDF2-HMAC-SHA256),
/// RFC 8439 (ChaCha20 block, Poly1305, AEAD).
pub fn self_test() -> Result<(), String> {
    if sha256(b"abc").to_vec() != hex("ba7816bf8f01cfea414140de5dae2223b00361a396177a9cb410ff61f20015ad") {
        return Err("SHA-256 self-test failed".into());
    }
    let long = vec![b'a'; 1000];
    if sha256(&long).to_vec() != hex("41edece42d63e8d9bf515a9ba6932e1c20cbc9f5a5d134645adb5db1b9737ea3") {
        return Err("SHA-256 long self-test failed".into());
    }
    if hmac_sha256(&[0x0b; 20], b"Hi There").to_vec()
        != hex("b0344c61d8db38535ca8afceaf0bf12b881dc200c9833da726e9376c2e32cff7")
    {
        return Err("HMAC-SHA256 self-test failed".into());
    }
    if pbkdf2_hmac_sha256(b"passwd", b"salt", 1).to_vec()
        != hex("55ac046e56e3089fec1691c22544b605f94185216dde0465e68b9d57c20dacbc")
    {
        return Err("PBKDF2 self-test (c=1) failed".into());
    }
    if pbkdf2_hmac_sha256(b"Password", b"NaCl", 80000).to_vec()
        != hex("4ddcd8f60b98be21830cee5ef22701f9641a4418d04c0414aeff08876b34ab56")
    {
        return Err("PBKDF2 self-test (c=80000) failed".into());
    }
    // RFC 8439 2.8.2
    let key: [u8; 32] = hex("808182838485868788898a8b8c8d8e8f909192939495969798999a9b9c9d9e9f").try_into().unwrap();
    let nonce: [u8; 12] = hex("070000004041424344454647").try_into().unwrap();
    let aad = hex("50515253c0c1c2c3c4c5c6c7");
    let pt = b"Ladies and Gentlemen of the class of '99: If I could offer you only one tip for the future, sunscreen would be it.";
    let sealed = aead_seal(&key, &nonce, &aad, pt);
    let want_ct = hex("d31a8d34648e60db7b86afbc53ef7ec2a4aded51296e08fea9e2b5a736ee62d63dbea45e8ca9671282fafb69da92728b1a71de0a9e060b2905d6a5b67ecd3b3692ddbd7f2d778b8c9803aee328091b58fab324e4fad675945585808b4831d7bc3ff4def08e4b7a9de576d26586cec64b6116");
    let want_tag = hex("1ae10b594f09e26a7e902ecbd0600691");
    if sealed[..sealed.len() - 16] != want_ct[..] || sealed[sealed.len() - 16..] != want_tag[..] {
        return Err("ChaCha20-Poly1305 self-test failed".into());
    }
    if aead_open(&key, &nonce, &aad, &sealed).as_deref() != Some(&pt[..]) {
        return Err("ChaCha20-Poly1305 open self-test failed".into());
    }
    // RFC 8439 2.5.2 Poly1305
    let pk: [u8; 32] = hex("85d6be7857556d337f4452fe42d506a80103808afb0db2fd4abff6af4149f51b").try_into().unwrap();
    if poly1305(&pk, b"Cryptographic Forum Research Group").to_vec() != hex("a8061dc1305136c6c22b8baf0c0127a9") {
        return Err("Poly1305 self-test failed".into());
    }
    Ok(())
}
