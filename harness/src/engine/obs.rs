//! ObservingStorage / fault storage: a harness implementation of the public `Storage` /
//! `StorageTxn` traits wrapping any other storage.  It counts calls, can fail a call or "stop the
//! process" at call *i* (the call never returns and the harness drops the whole future), and at
//! every commit records what the transaction sees, which is the "harness storage handle" that
//! the properties name.

use super::exec::block_on;
use super::model::Model;
use async_trait::async_trait;
use std::collections::BTreeMap;
use std::sync::atomic::{AtomicBool, Ordering};
use std::sync::{Arc, Mutex};
use taskchampion::server::VersionId;
use taskchampion::storage::{Storage, StorageTxn, TaskMap};
use taskchampion::{Error, Operation, Uuid};

type Result<T> = std::result::Result<T, Error>;

#[derive(Clone, Debug, PartialEq, Eq, Default)]
pub struct Dump {
    pub tasks: Model,
    pub base: Uuid,
    pub unsynced: Vec<Operation>,
    pub working_set: Vec<Option<Uuid>>,
    /// per-task operation lists for a fixed uuid pool (only when requested)
    pub task_ops: BTreeMap<Uuid, Vec<Operation>>,
}

impl Dump {
    pub fn empty() -> Self {
        Dump {
            tasks: Model::new(),
            base: Uuid::nil(),
            unsynced: vec![],
            working_set: vec![None],
            task_ops: BTreeMap::new(),
        }
    }
    /// working set without trailing empty slots (the two storages differ in when they trim)
    pub fn ws_trimmed(&self) -> Vec<Option<Uuid>> {
        let mut ws = self.working_set.clone();
        while ws.len() > 1 && ws.last() == Some(&None) {
            ws.pop();
        }
        ws
    }
    pub fn normalized(&self) -> Dump {
        let mut d = self.clone();
        d.working_set = d.ws_trimmed();
        d
    }
}

pub async fn dump_txn(txn: &mut dyn StorageTxn, pool: &[Uuid]) -> Result<Dump> {
    let tasks = Model::from_pairs(txn.all_tasks().await?);
    let base = txn.base_version().await?;
    let unsynced = txn.unsynced_operations().await?;
    let working_set = txn.get_working_set().await?;
    let mut task_ops = BTreeMap::new();
    for u in pool {
        let ops = txn.get_task_operations(*u).await?;
        if !ops.is_empty() {
            task_ops.insert(*u, ops);
        }
    }
    Ok(Dump {
        tasks,
        base,
        unsynced,
        working_set,
        task_ops,
    })
}

/// Read a full dump through a fresh transaction on a storage.
pub fn dump_storage(storage: &mut dyn Storage, pool: &[Uuid]) -> Result<Dump> {
    block_on(async {
        let mut txn = storage.txn().await?;
        dump_txn(txn.as_mut(), pool).await
    })
}

#[derive(Clone, Copy, Debug, PartialEq, Eq, Hash, serde::Serialize, serde::Deserialize)]
pub enum StorageFault {
    /// the storage call returns an error
    Err,
    /// the process stops at this call: it never returns, the future is dropped
    Stop,
}

#[derive(Default)]
pub struct ProbeState {
    pub calls: usize,
    pub names: Vec<&'static str>,
    pub record_names: bool,
    pub fault: Option<(usize, StorageFault)>,
    pub fired: bool,
    pub last_commit: Option<Dump>,
    pub commits: usize,
    pub pool: Vec<Uuid>,
    pub observe: bool,
    /// every committed state, in order (only when `keep_history`)
    pub keep_history: bool,
    pub history: Vec<Dump>,
    /// sleep this long inside every storage call (used by the kill tests to widen windows)
    pub delay_us: u64,
}

#[derive(Clone)]
pub struct Probe {
    pub st: Arc<Mutex<ProbeState>>,
    pub hung: Arc<AtomicBool>,
}

impl Probe {
    pub fn new(observe: bool, pool: Vec<Uuid>) -> Self {
        Probe {
            st: Arc::new(Mutex::new(ProbeState {
                observe,
                pool,
                ..Default::default()
            })),
            hung: Arc::new(AtomicBool::new(false)),
        }
    }
    /// Reset the call counter, optionally arming one fault at a call index.
    pub fn arm(&self, fault: Option<(usize, StorageFault)>, record_names: bool) {
        let mut st = self.st.lock().unwrap();
        st.calls = 0;
        st.names.clear();
        st.record_names = record_names;
        st.fault = fault;
        st.fired = false;
        self.hung.store(false, Ordering::SeqCst);
    }
    pub fn disarm(&self) {
        let mut st = self.st.lock().unwrap();
        st.fault = None;
        st.record_names = false;
        self.hung.store(false, Ordering::SeqCst);
    }
    pub fn calls(&self) -> usize {
        self.st.lock().unwrap().calls
    }
    pub fn names(&self) -> Vec<&'static str> {
        self.st.lock().unwrap().names.clone()
    }
    pub fn fired(&self) -> bool {
        self.st.lock().unwrap().fired
    }
    pub fn commits(&self) -> usize {
        self.st.lock().unwrap().commits
    }
    pub fn last(&self) -> Dump {
        self.st
            .lock()
            .unwrap()
            .last_commit
            .clone()
            .unwrap_or_else(Dump::empty)
    }
    pub fn set_last(&self, d: Dump) {
        self.st.lock().unwrap().last_commit = Some(d);
    }

    pub fn keep_history(&self, on: bool) {
        let mut st = self.st.lock().unwrap();
        st.keep_history = on;
        st.history.clear();
    }
    pub fn history(&self) -> Vec<Dump> {
        self.st.lock().unwrap().history.clone()
    }
    pub fn set_delay_us(&self, us: u64) {
        self.st.lock().unwrap().delay_us = us;
    }

    /// Called at the start of every storage call.
    async fn enter(&self, name: &'static str) -> Result<()> {
        let action = {
            let mut st = self.st.lock().unwrap();
            if st.delay_us > 0 {
                let d = st.delay_us;
                drop(st);
                std::thread::sleep(std::time::Duration::from_micros(d));
                st = self.st.lock().unwrap();
            }
            let idx = st.calls;
            st.calls += 1;
            if st.record_names {
                st.names.push(name);
            }
            match st.fault {
                Some((i, f)) if i == idx && !st.fired => {
                    st.fired = true;
                    Some(f)
                }
                _ => None,
            }
        };
        match action {
            None => Ok(()),
            // what a failing SQLite statement or a dead storage thread yields: Error::Other
            Some(StorageFault::Err) => Err(Error::Other(anyhow::anyhow!(
                "injected fault: storage call {name} failed"
            ))),
            Some(StorageFault::Stop) => {
                self.hung.store(true, Ordering::SeqCst);
                std::future::pending::<()>().await;
                unreachable!()
            }
        }
    }
}

pub struct ObsStorage {
    inner: Box<dyn Storage>,
    pub probe: Probe,
}

impl ObsStorage {
    pub fn new(inner: Box<dyn Storage>, probe: Probe) -> Self {
        ObsStorage { inner, probe }
    }
}

struct ObsTxn<'a> {
    inner: Box<dyn StorageTxn + Send + 'a>,
    probe: Probe,
}

#[async_trait]
impl Storage for ObsStorage {
    async fn txn<'a>(&'a mut self) -> Result<Box<dyn StorageTxn + Send + 'a>> {
        self.probe.enter("txn").await?;
        let inner = self.inner.txn().await?;
        Ok(Box::new(ObsTxn {
            inner,
            probe: self.probe.clone(),
        }))
    }
}

macro_rules! impl_obs_txn {
    ($( $name:ident ( $($arg:ident : $ty:ty),* ) -> $ret:ty; )*) => {
        #[async_trait]
        impl StorageTxn for ObsTxn<'_> {
            $(
                async fn $name(&mut self, $($arg: $ty),*) -> Result<$ret> {
                    self.probe.enter(stringify!($name)).await?;
                    self.inner.$name($($arg),*).await
                }
            )*

            async fn commit(&mut self) -> Result<()> {
                self.commit_impl().await
            }
        }
    };
}

impl_obs_txn! {
    get_task(uuid: Uuid) -> Option<TaskMap>;
    get_pending_tasks() -> Vec<(Uuid, TaskMap)>;
    create_task(uuid: Uuid) -> bool;
    set_task(uuid: Uuid, task: TaskMap) -> ();
    delete_task(uuid: Uuid) -> bool;
    all_tasks() -> Vec<(Uuid, TaskMap)>;
    all_task_uuids() -> Vec<Uuid>;
    base_version() -> VersionId;
    set_base_version(version: VersionId) -> ();
    get_task_operations(uuid: Uuid) -> Vec<Operation>;
    unsynced_operations() -> Vec<Operation>;
    num_unsynced_operations() -> usize;
    add_operation(op: Operation) -> ();
    remove_operation(op: Operation) -> ();
    sync_complete() -> ();
    get_working_set() -> Vec<Option<Uuid>>;
    add_to_working_set(uuid: Uuid) -> usize;
    set_working_set_item(index: usize, uuid: Option<Uuid>) -> ();
    clear_working_set() -> ();
    is_empty() -> bool;
}

impl ObsTxn<'_> {
    async fn commit_impl(&mut self) -> Result<()> {
        self.probe.enter("commit").await?;
        let (observe, pool) = {
            let st = self.probe.st.lock().unwrap();
            (st.observe, st.pool.clone())
        };
        let dump = if observe {
            Some(dump_txn(self.inner.as_mut(), &pool).await?)
        } else {
            None
        };
        self.inner.commit().await?;
        let mut st = self.probe.st.lock().unwrap();
        st.commits += 1;
        if let Some(d) = dump {
            if st.keep_history {
                st.history.push(d.clone());
            }
            st.last_commit = Some(d);
        }
        Ok(())
    }
}
