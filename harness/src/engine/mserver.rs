//! ModelServer: a harness-side implementation of the public `taskchampion::Server` trait that
//! keeps the version chain in memory, is trivially correct (every request is atomic), records
//! every request and reply, and can be scheduled and faulted by the harness.

use super::exec::yield_once;
use async_trait::async_trait;
use std::cell::{Cell, RefCell};
use std::collections::VecDeque;
use std::rc::Rc;
use taskchampion::server::{
    AddVersionResult, GetVersionResult, HistorySegment, Server, Snapshot, SnapshotUrgency,
    VersionId,
};
use taskchampion::{Error, Uuid};

#[derive(Clone, Debug)]
pub struct Ver {
    pub id: Uuid,
    pub parent: Uuid,
    pub bytes: Vec<u8>,
    pub client: usize,
}

#[derive(Clone, Debug, PartialEq, Eq)]
pub enum Req {
    GetChild {
        client: usize,
        parent: Uuid,
        reply: Option<Uuid>,
    },
    AddVersion {
        client: usize,
        parent: Uuid,
        accepted: Result<Uuid, Uuid>,
        urgency: u8,
        reply_lost: bool,
    },
    AddSnapshot {
        client: usize,
        version: Uuid,
        reply_lost: bool,
    },
    GetSnapshot {
        client: usize,
        reply: Option<Uuid>,
    },
    Failed {
        client: usize,
        what: &'static str,
    },
}

#[derive(Clone, Copy, Debug, PartialEq, Eq, Hash, serde::Serialize, serde::Deserialize)]
pub enum ServerFault {
    /// the request fails and the server never saw it
    ErrBefore,
    /// the server carries the request out but the reply is lost
    LostReply,
}

#[derive(Default, Clone)]
pub struct ServerState {
    /// every version ever accepted, in chain order
    pub versions: Vec<Ver>,
    /// versions with index < discarded are no longer served (history expired behind a snapshot)
    pub discarded: usize,
    /// every snapshot ever received: (version, bytes, client)
    pub snapshots: Vec<(Uuid, Vec<u8>, usize)>,
    pub log: Vec<Req>,
    /// urgency answered with each accepted add_version (front first); empty = None
    pub urgency: VecDeque<u8>,
    /// what get_snapshot returns
    pub offer: Option<(Uuid, Vec<u8>)>,
    next_id: u128,
}

impl ServerState {
    pub fn latest(&self) -> Uuid {
        self.versions.last().map(|v| v.id).unwrap_or(Uuid::nil())
    }
    pub fn index_of(&self, id: Uuid) -> Option<usize> {
        self.versions.iter().position(|v| v.id == id)
    }
    /// history segments of the chain up to and including version `id` (nil = none)
    pub fn segments_upto(&self, id: Uuid) -> Option<Vec<&[u8]>> {
        if id.is_nil() {
            return Some(vec![]);
        }
        let i = self.index_of(id)?;
        Some(self.versions[..=i].iter().map(|v| &v.bytes[..]).collect())
    }
    pub fn all_segments(&self) -> Vec<&[u8]> {
        self.versions.iter().map(|v| &v.bytes[..]).collect()
    }
}

pub fn urgency_of(u: u8) -> SnapshotUrgency {
    match u {
        0 => SnapshotUrgency::None,
        1 => SnapshotUrgency::Low,
        _ => SnapshotUrgency::High,
    }
}

#[derive(Clone)]
pub struct ModelServer {
    pub state: Rc<RefCell<ServerState>>,
}

/// Per-client control block shared between the boxed handle given to `Replica::sync` and the
/// harness.
#[derive(Clone)]
pub struct HandleCtl {
    pub client: usize,
    pub gated: Rc<Cell<bool>>,
    pub requests: Rc<Cell<usize>>,
    pub faults: Rc<RefCell<Vec<(usize, ServerFault)>>>,
    /// this client's private view: versions with index < hide_before are not served
    pub hide_before: Rc<Cell<usize>>,
    /// this client's private snapshot offer (overrides the server-wide one)
    pub offer: Rc<RefCell<Option<(Uuid, Vec<u8>)>>>,
}

impl HandleCtl {
    /// Start counting requests from zero and install a fault plan (request index -> fault).
    pub fn arm(&self, faults: Vec<(usize, ServerFault)>) {
        self.requests.set(0);
        *self.faults.borrow_mut() = faults;
    }
    pub fn disarm(&self) {
        self.faults.borrow_mut().clear();
    }
}

pub struct Handle {
    state: Rc<RefCell<ServerState>>,
    ctl: HandleCtl,
}

impl ModelServer {
    pub fn new() -> Self {
        ModelServer {
            state: Rc::new(RefCell::new(ServerState {
                next_id: 1,
                ..Default::default()
            })),
        }
    }

    /// A new, independent server starting from a copy of `state`.
    pub fn from_state(state: ServerState) -> Self {
        ModelServer {
            state: Rc::new(RefCell::new(state)),
        }
    }

    pub fn handle(&self, client: usize) -> (Box<dyn Server>, HandleCtl) {
        let ctl = HandleCtl {
            client,
            gated: Rc::new(Cell::new(false)),
            requests: Rc::new(Cell::new(0)),
            faults: Rc::new(RefCell::new(vec![])),
            hide_before: Rc::new(Cell::new(0)),
            offer: Rc::new(RefCell::new(None)),
        };
        (
            Box::new(Handle {
                state: self.state.clone(),
                ctl: ctl.clone(),
            }),
            ctl,
        )
    }

    /// Pre-load a version written by "another implementation".
    pub fn preload(&self, bytes: Vec<u8>) -> Uuid {
        let mut st = self.state.borrow_mut();
        let parent = st.latest();
        let id = Uuid::from_u128(0x5e00_0000 + st.next_id);
        st.next_id += 1;
        st.versions.push(Ver {
            id,
            parent,
            bytes,
            client: usize::MAX,
        });
        id
    }
}

impl Handle {
    async fn enter(&self, what: &'static str) -> Result<Option<ServerFault>, Error> {
        if self.ctl.gated.get() {
            yield_once().await;
        }
        let idx = self.ctl.requests.get();
        self.ctl.requests.set(idx + 1);
        let fault = self
            .ctl
            .faults
            .borrow()
            .iter()
            .find(|(i, _)| *i == idx)
            .map(|(_, f)| *f);
        if fault == Some(ServerFault::ErrBefore) {
            self.state.borrow_mut().log.push(Req::Failed {
                client: self.ctl.client,
                what,
            });
            return Err(Error::Server(format!(
                "injected fault: {what} failed before reaching the server"
            )));
        }
        Ok(fault)
    }
}

#[async_trait(?Send)]
impl Server for Handle {
    async fn add_version(
        &mut self,
        parent_version_id: VersionId,
        history_segment: HistorySegment,
    ) -> Result<(AddVersionResult, SnapshotUrgency), Error> {
        let fault = self.enter("add_version").await?;
        let mut st = self.state.borrow_mut();
        let latest = st.latest();
        let (res, urg) = if st.versions.is_empty() || parent_version_id == latest {
            let id = Uuid::from_u128(0x5e00_0000 + st.next_id);
            st.next_id += 1;
            st.versions.push(Ver {
                id,
                parent: parent_version_id,
                bytes: history_segment,
                client: self.ctl.client,
            });
            let u = st.urgency.pop_front().unwrap_or(0);
            (AddVersionResult::Ok(id), u)
        } else {
            (AddVersionResult::ExpectedParentVersion(latest), 0)
        };
        let client = self.ctl.client;
        st.log.push(Req::AddVersion {
            client,
            parent: parent_version_id,
            accepted: match &res {
                AddVersionResult::Ok(id) => Ok(*id),
                AddVersionResult::ExpectedParentVersion(id) => Err(*id),
            },
            urgency: urg,
            reply_lost: fault.is_some(),
        });
        if fault.is_some() {
            return Err(Error::Server(
                "injected fault: reply to add_version lost".into(),
            ));
        }
        Ok((res, urgency_of(urg)))
    }

    async fn get_child_version(
        &mut self,
        parent_version_id: VersionId,
    ) -> Result<GetVersionResult, Error> {
        let fault = self.enter("get_child_version").await?;
        let mut st = self.state.borrow_mut();
        let found = st
            .versions
            .iter()
            .enumerate()
            .find(|(i, v)| {
                *i >= st.discarded.max(self.ctl.hide_before.get()) && v.parent == parent_version_id
            })
            .map(|(_, v)| v.clone());
        let client = self.ctl.client;
        st.log.push(Req::GetChild {
            client,
            parent: parent_version_id,
            reply: found.as_ref().map(|v| v.id),
        });
        if fault.is_some() {
            return Err(Error::Server(
                "injected fault: reply to get_child_version lost".into(),
            ));
        }
        Ok(match found {
            Some(v) => GetVersionResult::Version {
                version_id: v.id,
                parent_version_id: v.parent,
                history_segment: v.bytes,
            },
            None => GetVersionResult::NoSuchVersion,
        })
    }

    async fn add_snapshot(&mut self, version_id: VersionId, snapshot: Snapshot) -> Result<(), Error> {
        let fault = self.enter("add_snapshot").await?;
        let mut st = self.state.borrow_mut();
        let client = self.ctl.client;
        st.snapshots.push((version_id, snapshot, client));
        st.log.push(Req::AddSnapshot {
            client,
            version: version_id,
            reply_lost: fault.is_some(),
        });
        if fault.is_some() {
            return Err(Error::Server(
                "injected fault: reply to add_snapshot lost".into(),
            ));
        }
        Ok(())
    }

    async fn get_snapshot(&mut self) -> Result<Option<(VersionId, Snapshot)>, Error> {
        let fault = self.enter("get_snapshot").await?;
        let mut st = self.state.borrow_mut();
        let offer = self.ctl.offer.borrow().clone().or_else(|| st.offer.clone());
        let client = self.ctl.client;
        st.log.push(Req::GetSnapshot {
            client,
            reply: offer.as_ref().map(|o| o.0),
        });
        if fault.is_some() {
            return Err(Error::Server(
                "injected fault: reply to get_snapshot lost".into(),
            ));
        }
        Ok(offer)
    }
}
