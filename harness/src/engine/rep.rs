//! A replica under test: `taskchampion::Replica` over the observing storage, with blocking
//! helpers.

use super::exec::{block_on, block_on_abortable};
use super::model::{Model, Props};
use super::obs::{dump_storage, Dump, ObsStorage, Probe};
use std::path::Path;
use taskchampion::server::Server;
use taskchampion::storage::inmemory::InMemoryStorage;
use taskchampion::storage::{AccessMode, Storage};
use taskchampion::{Error, Operation, Replica, SqliteStorage, Uuid};

pub struct Rep {
    pub replica: Replica<ObsStorage>,
    pub probe: Probe,
}

pub fn open_sqlite(dir: &Path) -> Result<SqliteStorage, Error> {
    block_on(SqliteStorage::new(dir, AccessMode::ReadWrite, true))
}

impl Rep {
    pub fn mem(pool: &[Uuid]) -> Rep {
        let probe = Probe::new(true, pool.to_vec());
        let storage = ObsStorage::new(Box::new(InMemoryStorage::new()), probe.clone());
        Rep {
            replica: Replica::new(storage),
            probe,
        }
    }

    /// Open (or create) a SQLite-backed replica on `dir`.  The current contents are read through
    /// a fresh transaction first so that `dump()` is right from the start.
    pub fn sqlite(dir: &Path, pool: &[Uuid]) -> Result<Rep, Error> {
        let probe = Probe::new(true, pool.to_vec());
        let mut inner: Box<dyn Storage> = Box::new(open_sqlite(dir)?);
        let d = dump_storage(inner.as_mut(), pool)?;
        probe.set_last(d);
        let storage = ObsStorage::new(inner, probe.clone());
        Ok(Rep {
            replica: Replica::new(storage),
            probe,
        })
    }

    pub fn with_storage(inner: Box<dyn Storage>, pool: &[Uuid], observe: bool) -> Rep {
        let probe = Probe::new(observe, pool.to_vec());
        let storage = ObsStorage::new(inner, probe.clone());
        Rep {
            replica: Replica::new(storage),
            probe,
        }
    }

    pub fn commit(&mut self, ops: Vec<Operation>) -> Result<(), Error> {
        block_on(self.replica.commit_operations(ops))
    }

    pub fn sync(&mut self, server: &mut Box<dyn Server>, avoid_snapshots: bool) -> Result<(), Error> {
        block_on(self.replica.sync(server, avoid_snapshots))
    }

    /// Sync with the storage probe's "process stop" fault honoured: None = stopped.
    pub fn sync_abortable(
        &mut self,
        server: &mut Box<dyn Server>,
        avoid_snapshots: bool,
    ) -> Option<Result<(), Error>> {
        let hung = self.probe.hung.clone();
        block_on_abortable(self.replica.sync(server, avoid_snapshots), &hung)
    }

    pub fn tasks(&mut self) -> Model {
        let all = block_on(self.replica.all_task_data()).expect("all_task_data failed");
        Model(
            all.into_iter()
                .map(|(u, td)| {
                    let p: Props = td.iter().map(|(k, v)| (k.clone(), v.clone())).collect();
                    (u, p)
                })
                .collect(),
        )
    }

    pub fn try_tasks(&mut self) -> Result<Model, Error> {
        let all = block_on(self.replica.all_task_data())?;
        Ok(Model(
            all.into_iter()
                .map(|(u, td)| {
                    let p: Props = td.iter().map(|(k, v)| (k.clone(), v.clone())).collect();
                    (u, p)
                })
                .collect(),
        ))
    }

    /// What the storage held at the last commit (tasks, base version, unsynced operations,
    /// working set), as seen from inside that transaction.
    pub fn dump(&self) -> Dump {
        self.probe.last()
    }

    pub fn num_local(&mut self) -> usize {
        block_on(self.replica.num_local_operations()).expect("num_local_operations failed")
    }

    pub fn working_set(&mut self) -> Vec<Option<Uuid>> {
        let ws = block_on(self.replica.working_set()).expect("working_set failed");
        let mut v = vec![None; ws.largest_index() + 1];
        for (i, u) in ws.iter() {
            v[i] = Some(u);
        }
        v
    }
}
