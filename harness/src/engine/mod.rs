//! Runner, evidence, replay, known findings.
//!
//! A property check is a list of *campaigns*.  A campaign is either a proptest-driven random
//! search over a strategy (`Engine::campaign`) or an exhaustive enumeration of a finite space
//! (`Engine::enumerate`).  Both call a pure check function `case -> Result<CaseReport, Failure>`.
//! Every random choice comes from the proptest strategy; a run is a function of the tree under
//! test and `VERIF_SEED`.

pub mod crypto;
pub mod exec;
pub mod httpsrv;
pub mod model;
pub mod mserver;
pub mod obs;
pub mod rep;
pub mod sched;

use proptest::strategy::{Strategy, ValueTree};
use proptest::test_runner::{Config, RngSeed, TestCaseError, TestError, TestRunner};
use serde::de::DeserializeOwned;
use serde::Serialize;
use serde_json::{json, Value};
use std::collections::{BTreeMap, HashSet};
use std::fmt::Debug;
use std::hash::{Hash, Hasher};
use std::panic::{catch_unwind, AssertUnwindSafe};
use std::path::PathBuf;
use std::sync::atomic::{AtomicBool, AtomicU64, Ordering};
use std::sync::{Arc, Mutex};
use std::time::Instant;

#[derive(Clone, Copy, PartialEq, Eq, Debug)]
pub enum Tier {
    Quick,
    Thorough,
}

impl Tier {
    pub fn pick<T>(self, quick: T, thorough: T) -> T {
        match self {
            Tier::Quick => quick,
            Tier::Thorough => thorough,
        }
    }
    pub fn name(self) -> &'static str {
        match self {
            Tier::Quick => "quick",
            Tier::Thorough => "thorough",
        }
    }
}

/// What a passing case reports back, for the evidence file.
#[derive(Default, Debug, Clone)]
pub struct CaseReport {
    /// non-trivial by the property's stated rule
    pub nontrivial: bool,
    /// generator-distribution labels
    pub classes: Vec<&'static str>,
    /// for checks that enumerate sub-cases (fault points) inside one generated case: the number
    /// of sub-cases executed and the fingerprints of the non-trivial ones
    pub extra_evals: u64,
    pub extra_nontrivial: Vec<u64>,
}

impl CaseReport {
    pub fn new(nontrivial: bool) -> Self {
        CaseReport {
            nontrivial,
            ..Default::default()
        }
    }
    pub fn class(&mut self, c: &'static str) {
        if !self.classes.contains(&c) {
            self.classes.push(c);
        }
    }
    pub fn class_if(&mut self, cond: bool, c: &'static str) {
        if cond {
            self.class(c)
        }
    }
}

/// A property violation found by a check function.
#[derive(Debug, Clone)]
pub struct Failure {
    /// human-readable explanation
    pub msg: String,
    /// stable identification of *what* fails, used to match known findings
    pub signature: String,
}

impl Failure {
    pub fn new(signature: impl Into<String>, msg: impl Into<String>) -> Self {
        Failure {
            msg: msg.into(),
            signature: signature.into(),
        }
    }
}

pub type CheckResult = Result<CaseReport, Failure>;

#[macro_export]
macro_rules! fail {
    ($sig:expr, $($arg:tt)*) => {
        return Err($crate::engine::Failure::new($sig, format!($($arg)*)))
    };
}

#[macro_export]
macro_rules! ensure {
    ($cond:expr, $sig:expr, $($arg:tt)*) => {
        if !($cond) {
            return Err($crate::engine::Failure::new($sig, format!($($arg)*)));
        }
    };
}

#[derive(Debug, Clone, serde::Deserialize)]
pub struct KnownFinding {
    pub property: String,
    pub signature: String,
    pub what: String,
    pub status: String, // "open" | "fixed"
    #[serde(default)]
    pub commit: Option<String>,
}

pub struct Engine {
    pub prop: &'static str,
    pub level: &'static str,
    pub tier: Tier,
    pub seed: u64,
    pub workers: usize,
    pub replay: Option<PathBuf>,
    pub root: PathBuf,
    start: Instant,
    known: Vec<KnownFinding>,
    state: Mutex<EvState>,
    stop: AtomicBool,
    shrink_iters: AtomicU64,
    worker_cap: AtomicU64,
}

#[derive(Default)]
struct EvState {
    evaluations: u64,
    nontrivial: HashSet<u64>,
    classes: BTreeMap<String, u64>,
    campaigns: Vec<Value>,
    samples: Vec<Value>,
    excluded_known: BTreeMap<String, u64>,
    violations: Vec<(String, PathBuf, String)>,
    assumptions: Vec<String>,
    rules: Vec<String>,
    exhaustive_all: bool,
    any_campaign: bool,
    notes: Vec<String>,
}

pub fn hash_of<T: Hash>(t: &T) -> u64 {
    let mut h = std::collections::hash_map::DefaultHasher::new();
    t.hash(&mut h);
    h.finish()
}

#[derive(serde::Serialize, serde::Deserialize)]
struct ReplayFile {
    property: String,
    campaign: String,
    signature: String,
    message: String,
    case: Value,
}

impl Engine {
    pub fn new(
        prop: &'static str,
        level: &'static str,
        tier: Tier,
        seed: u64,
        replay: Option<PathBuf>,
    ) -> Self {
        let root = std::env::var("VERIF_ROOT")
            .map(PathBuf::from)
            .unwrap_or_else(|_| PathBuf::from("/verif"));
        let known: Vec<KnownFinding> = std::fs::read_to_string(root.join("known-findings.json"))
            .ok()
            .and_then(|s| serde_json::from_str::<Value>(&s).ok())
            .and_then(|v| v.get("findings").cloned())
            .and_then(|v| serde_json::from_value(v).ok())
            .unwrap_or_default();
        let workers = std::env::var("VERIF_WORKERS")
            .ok()
            .and_then(|s| s.parse().ok())
            .unwrap_or_else(|| {
                std::thread::available_parallelism()
                    .map(|n| n.get())
                    .unwrap_or(4)
                    .min(16)
            });
        Engine {
            prop,
            level,
            tier,
            seed,
            workers,
            replay,
            root,
            start: Instant::now(),
            known,
            state: Mutex::new(EvState {
                exhaustive_all: true,
                ..Default::default()
            }),
            stop: AtomicBool::new(false),
            shrink_iters: AtomicU64::new(4000),
            worker_cap: AtomicU64::new(u64::MAX),
        }
    }

    /// Bound the number of shrink steps of the following campaigns (expensive cases).
    /// Cap the number of worker threads for the following campaigns (process creation does not
    /// scale across cores in the sandbox, so campaigns that spawn git gain nothing from 16
    /// workers and only burn CPU).  `u64::MAX` removes the cap.
    pub fn set_worker_cap(&self, n: u64) {
        self.worker_cap.store(n.max(1), Ordering::Relaxed);
    }
    fn eff_workers(&self) -> usize {
        (self.workers.max(1) as u64).min(self.worker_cap.load(Ordering::Relaxed)) as usize
    }
    pub fn set_shrink_iters(&self, n: u64) {
        self.shrink_iters.store(n, Ordering::Relaxed);
    }

    pub fn is_open_known(&self, sig: &str) -> bool {
        self.known
            .iter()
            .any(|k| k.property == self.prop && k.status == "open" && k.signature == sig)
    }

    pub fn open_known(&self) -> Vec<KnownFinding> {
        self.known
            .iter()
            .filter(|k| k.property == self.prop && k.status == "open")
            .cloned()
            .collect()
    }

    pub fn assume(&self, s: &str) {
        let mut st = self.state.lock().unwrap();
        if !st.assumptions.iter().any(|a| a == s) {
            st.assumptions.push(s.to_string());
        }
    }

    pub fn note(&self, s: impl Into<String>) {
        self.state.lock().unwrap().notes.push(s.into());
    }

    pub fn failed(&self) -> bool {
        !self.state.lock().unwrap().violations.is_empty()
    }

    /// Returns true when a replay file was given and it names another campaign
    fn replay_case(&self, campaign: &str) -> Option<Option<Value>> {
        let path = self.replay.as_ref()?;
        let text = std::fs::read_to_string(path).unwrap_or_else(|e| {
            eprintln!("cannot read replay file {path:?}: {e}");
            std::process::exit(2)
        });
        let rf: ReplayFile = serde_json::from_str(&text).unwrap_or_else(|e| {
            eprintln!("cannot parse replay file {path:?}: {e}");
            std::process::exit(2)
        });
        if rf.campaign == campaign {
            Some(Some(rf.case))
        } else {
            Some(None)
        }
    }

    fn record_pass(&self, st: &mut EvState, fp: u64, rep: &CaseReport) {
        st.evaluations += 1 + rep.extra_evals;
        if rep.nontrivial {
            st.nontrivial.insert(fp);
        }
        for x in &rep.extra_nontrivial {
            st.nontrivial.insert(fp ^ x.wrapping_mul(0x9E37_79B9_7F4A_7C15));
        }
        for c in &rep.classes {
            *st.classes.entry(c.to_string()).or_insert(0) += 1;
        }
    }

    fn write_failure<C: Serialize>(&self, campaign: &str, case: &C, f: &Failure) -> PathBuf {
        let dir = self.root.join("failures");
        let _ = std::fs::create_dir_all(&dir);
        let body = ReplayFile {
            property: self.prop.to_string(),
            campaign: campaign.to_string(),
            signature: f.signature.clone(),
            message: f.msg.clone(),
            case: serde_json::to_value(case).unwrap_or(Value::Null),
        };
        let text = serde_json::to_string_pretty(&body).unwrap();
        let h = hash_of(&text);
        let path = dir.join(format!("{}-{}-{:016x}.json", self.prop, campaign, h));
        let _ = std::fs::write(&path, text);
        path
    }

    /// Run `check` on one case, catching panics; classify known findings.
    /// Ok(Some(report)) = pass, Ok(None) = failed with an open known finding (excluded),
    /// Err = new violation.
    fn guarded<C, F>(&self, case: &C, check: &F) -> Result<Option<CaseReport>, Failure>
    where
        F: Fn(&C) -> CheckResult,
    {
        let r = catch_unwind(AssertUnwindSafe(|| check(case)));
        let r = match r {
            Ok(r) => r,
            Err(p) => {
                let msg = exec::panic_message(&p);
                Err(Failure::new(
                    format!("panic: {}", first_line(&msg)),
                    format!("panic during check: {msg}"),
                ))
            }
        };
        match r {
            Ok(rep) => Ok(Some(rep)),
            Err(f) => {
                if self.is_open_known(&f.signature) {
                    let mut st = self.state.lock().unwrap();
                    *st.excluded_known.entry(f.signature.clone()).or_insert(0) += 1;
                    Ok(None)
                } else {
                    Err(f)
                }
            }
        }
    }

    /// Replay committed regression inputs (`/verif/replays/<prop>-*.json`) for this campaign.
    fn run_regressions<C, F>(&self, name: &str, check: &F)
    where
        C: Debug + Clone + Serialize + DeserializeOwned,
        F: Fn(&C) -> CheckResult,
    {
        let dir = self.root.join("replays");
        let Ok(rd) = std::fs::read_dir(&dir) else {
            return;
        };
        let mut files: Vec<PathBuf> = rd
            .flatten()
            .map(|e| e.path())
            .filter(|p| {
                p.file_name()
                    .and_then(|n| n.to_str())
                    .map(|n| n.starts_with(&format!("{}-", self.prop)) && n.ends_with(".json"))
                    .unwrap_or(false)
            })
            .collect();
        files.sort();
        let mut n = 0u64;
        for f in files {
            let Ok(text) = std::fs::read_to_string(&f) else {
                continue;
            };
            let Ok(rf) = serde_json::from_str::<ReplayFile>(&text) else {
                continue;
            };
            if rf.campaign != name {
                continue;
            }
            let Ok(case) = serde_json::from_value::<C>(rf.case) else {
                self.note(format!("regression input {f:?} no longer parses; skipped"));
                continue;
            };
            n += 1;
            match self.guarded(&case, check) {
                Ok(Some(rep)) => {
                    let fp = hash_of(&format!("{case:?}"));
                    let mut st = self.state.lock().unwrap();
                    self.record_pass(&mut st, fp, &rep);
                }
                Ok(None) => {}
                Err(fl) => {
                    let path = self.write_failure(name, &case, &fl);
                    let mut st = self.state.lock().unwrap();
                    st.violations
                        .push((fl.signature.clone(), path, fl.msg.clone()));
                }
            }
        }
        if n > 0 {
            let mut st = self.state.lock().unwrap();
            st.campaigns
                .push(json!({"name": format!("{name}/regressions"), "kind": "replay", "cases": n}));
        }
    }

    /// Random search driven by proptest.
    pub fn campaign<C, S, M, F, R>(
        &self,
        name: &str,
        rule: &str,
        cases: u64,
        make_strategy: M,
        render: R,
        check: F,
    ) where
        C: Debug + Clone + Serialize + DeserializeOwned + Send + 'static,
        S: Strategy<Value = C>,
        M: Fn() -> S + Send + Sync,
        F: Fn(&C) -> CheckResult + Send + Sync,
        R: Fn(&C) -> Value + Send + Sync,
    {
        {
            let mut st = self.state.lock().unwrap();
            st.rules.push(format!("[{name}] {rule}"));
            st.any_campaign = true;
        }
        // replay mode
        if let Some(r) = self.replay_case(name) {
            if let Some(v) = r {
                let case: C = serde_json::from_value(v).unwrap_or_else(|e| {
                    eprintln!("replay case does not parse for campaign {name}: {e}");
                    std::process::exit(2)
                });
                self.run_one(name, &case, &render, &check);
            }
            return;
        }
        if self.failed() {
            return;
        }
        self.run_regressions::<C, F>(name, &check);
        if self.failed() {
            return;
        }
        {
            self.state.lock().unwrap().exhaustive_all = false;
        }
        let workers = self.eff_workers().min(cases.max(1) as usize);
        let per = (cases + workers as u64 - 1) / workers as u64;
        let done = AtomicU64::new(0);
        let sample_budget = AtomicU64::new(0);
        let t0 = Instant::now();
        std::thread::scope(|scope| {
            for w in 0..workers {
                let make_strategy = &make_strategy;
                let check = &check;
                let render = &render;
                let done = &done;
                let sample_budget = &sample_budget;
                scope.spawn(move || {
                    let strategy = make_strategy();
                    let mut seed = [0u8; 32];
                    let s = self
                        .seed
                        .wrapping_mul(0x9E37_79B9_7F4A_7C15)
                        .wrapping_add(hash_of(&(name, w as u64)));
                    for (i, b) in seed.iter_mut().enumerate() {
                        *b = (s.rotate_left((i * 7) as u32) >> ((i % 8) * 8)) as u8 ^ (i as u8);
                    }
                    let _ = seed;
                    let config = Config {
                        cases: per as u32,
                        failure_persistence: None,
                        rng_seed: RngSeed::Fixed(s),
                        max_shrink_iters: self.shrink_iters.load(Ordering::Relaxed) as u32,
                        max_global_rejects: 100_000,
                        ..Config::default()
                    };
                    let mut runner = TestRunner::new(config);
                    let failed_here = AtomicBool::new(false);
                    let last_failure: Mutex<Option<Failure>> = Mutex::new(None);
                    let res = runner.run(&strategy, |case| {
                        if self.stop.load(Ordering::Relaxed) && !failed_here.load(Ordering::Relaxed)
                        {
                            return Ok(());
                        }
                        let shrinking = failed_here.load(Ordering::Relaxed);
                        match self.guarded(&case, check) {
                            Ok(Some(rep)) => {
                                if !shrinking {
                                    let fp = hash_of(&format!("{case:?}"));
                                    let mut st = self.state.lock().unwrap();
                                    self.record_pass(&mut st, fp, &rep);
                                    done.fetch_add(1, Ordering::Relaxed);
                                    if rep.nontrivial
                                        && sample_budget.fetch_add(1, Ordering::Relaxed) < 3
                                    {
                                        st.samples.push(
                                            json!({"campaign": name, "case": render(&case)}),
                                        );
                                    }
                                }
                                Ok(())
                            }
                            Ok(None) => Ok(()),
                            Err(f) => {
                                failed_here.store(true, Ordering::Relaxed);
                                let msg = f.msg.clone();
                                *last_failure.lock().unwrap() = Some(f);
                                Err(TestCaseError::fail(msg))
                            }
                        }
                    });
                    if let Err(TestError::Fail(_, minimal)) = res {
                        self.stop.store(true, Ordering::Relaxed);
                        // re-run the minimal case to get its own failure text / signature
                        let f = match self.guarded(&minimal, check) {
                            Err(f) => f,
                            _ => last_failure.lock().unwrap().clone().unwrap_or(Failure::new(
                                "unstable",
                                "failure did not reproduce on the minimal case",
                            )),
                        };
                        let mut st = self.state.lock().unwrap();
                        // several workers may each find (the same) violation; report one
                        if st.violations.is_empty() {
                            let path = self.write_failure(name, &minimal, &f);
                            st.samples.push(
                                json!({"campaign": name, "violating_case": render(&minimal), "message": f.msg}),
                            );
                            st.violations.push((f.signature, path, f.msg));
                        }
                    } else if let Err(TestError::Abort(r)) = res {
                        self.note(format!("campaign {name} worker {w} aborted: {r}"));
                    }
                });
            }
        });
        let mut st = self.state.lock().unwrap();
        st.campaigns.push(json!({
            "name": name, "kind": "proptest", "cases": done.load(Ordering::Relaxed),
            "wall_s": t0.elapsed().as_secs_f64(),
        }));
    }

    fn run_one<C, F, R>(&self, name: &str, case: &C, render: &R, check: &F)
    where
        C: Debug + Clone + Serialize,
        F: Fn(&C) -> CheckResult,
        R: Fn(&C) -> Value,
    {
        match self.guarded(case, check) {
            Ok(Some(rep)) => {
                println!("REPLAY PASS campaign={name} nontrivial={}", rep.nontrivial);
                let fp = hash_of(&format!("{case:?}"));
                let mut st = self.state.lock().unwrap();
                self.record_pass(&mut st, fp, &rep);
                st.samples
                    .push(json!({"campaign": name, "case": render(case)}));
            }
            Ok(None) => {
                println!("REPLAY known-finding campaign={name}");
            }
            Err(f) => {
                println!("REPLAY FAIL campaign={name} signature={}\n{}", f.signature, f.msg);
                let path = self
                    .replay
                    .clone()
                    .unwrap_or_else(|| self.write_failure(name, case, &f));
                let mut st = self.state.lock().unwrap();
                st.samples.push(
                    json!({"campaign": name, "violating_case": render(case), "message": f.msg}),
                );
                st.violations.push((f.signature, path, f.msg));
            }
        }
    }

    /// Exhaustive enumeration of a finite list of cases (parallel over workers).
    pub fn enumerate<C, F, R>(&self, name: &str, rule: &str, cases: Vec<C>, render: R, check: F)
    where
        C: Debug + Clone + Serialize + DeserializeOwned + Send + Sync + 'static,
        F: Fn(&C) -> CheckResult + Send + Sync,
        R: Fn(&C) -> Value + Send + Sync,
    {
        {
            let mut st = self.state.lock().unwrap();
            st.rules.push(format!("[{name}] (exhaustive) {rule}"));
            st.any_campaign = true;
        }
        if let Some(r) = self.replay_case(name) {
            if let Some(v) = r {
                let case: C = serde_json::from_value(v).unwrap_or_else(|e| {
                    eprintln!("replay case does not parse for campaign {name}: {e}");
                    std::process::exit(2)
                });
                self.run_one(name, &case, &render, &check);
            }
            return;
        }
        if self.failed() {
            return;
        }
        self.run_regressions::<C, F>(name, &check);
        if self.failed() {
            return;
        }
        let t0 = Instant::now();
        let total = cases.len();
        let next = AtomicU64::new(0);
        let sample_budget = AtomicU64::new(0);
        let first_fail: Mutex<Option<(usize, Failure)>> = Mutex::new(None);
        std::thread::scope(|scope| {
            for _ in 0..self.eff_workers().min(total.max(1)) {
                let cases = &cases;
                let next = &next;
                let check = &check;
                let render = &render;
                let first_fail = &first_fail;
                let sample_budget = &sample_budget;
                scope.spawn(move || loop {
                    let i = next.fetch_add(1, Ordering::Relaxed) as usize;
                    if i >= cases.len() {
                        break;
                    }
                    if first_fail.lock().unwrap().is_some() {
                        break;
                    }
                    let case = &cases[i];
                    match self.guarded(case, check) {
                        Ok(Some(rep)) => {
                            let fp = hash_of(&format!("{case:?}"));
                            let mut st = self.state.lock().unwrap();
                            self.record_pass(&mut st, fp, &rep);
                            if rep.nontrivial && sample_budget.fetch_add(1, Ordering::Relaxed) < 3 {
                                st.samples
                                    .push(json!({"campaign": name, "case": render(case)}));
                            }
                        }
                        Ok(None) => {}
                        Err(f) => {
                            let mut ff = first_fail.lock().unwrap();
                            if ff.as_ref().map(|(j, _)| i < *j).unwrap_or(true) {
                                *ff = Some((i, f));
                            }
                        }
                    }
                });
            }
        });
        let ff = first_fail.lock().unwrap().take();
        let mut st = self.state.lock().unwrap();
        if let Some((i, f)) = ff {
            let path = self.write_failure(name, &cases[i], &f);
            st.samples.push(
                json!({"campaign": name, "violating_case": render(&cases[i]), "message": f.msg}),
            );
            st.violations.push((f.signature, path, f.msg));
            st.exhaustive_all = false;
        }
        st.campaigns.push(json!({
            "name": name, "kind": "exhaustive", "cases": total,
            "wall_s": t0.elapsed().as_secs_f64(),
        }));
    }

    /// Record counts from a campaign the property module ran by its own means (e.g. real
    /// process kills or thread stress), so that it appears in the evidence.
    pub fn record_external(
        &self,
        name: &str,
        rule: &str,
        evaluations: u64,
        nontrivial_fps: Vec<u64>,
        classes: Vec<(&str, u64)>,
        samples: Vec<Value>,
    ) {
        let mut st = self.state.lock().unwrap();
        st.rules.push(format!("[{name}] {rule}"));
        st.any_campaign = true;
        st.exhaustive_all = false;
        st.evaluations += evaluations;
        for fp in nontrivial_fps {
            st.nontrivial.insert(fp);
        }
        for (c, n) in classes {
            *st.classes.entry(c.to_string()).or_insert(0) += n;
        }
        for s in samples.into_iter().take(3) {
            st.samples.push(json!({"campaign": name, "case": s}));
        }
        st.campaigns
            .push(json!({"name": name, "kind": "external", "cases": evaluations}));
    }

    /// Replay the committed seed corpus of a fuzz target through the same target function,
    /// without libFuzzer (both tiers).
    pub fn fuzz_corpus(&self, target: &str) {
        if self.replay.is_some() || self.failed() {
            return;
        }
        let dir = self.root.join("harness/fuzz/corpus").join(target);
        let mut files: Vec<PathBuf> = std::fs::read_dir(&dir)
            .map(|rd| rd.flatten().map(|e| e.path()).collect())
            .unwrap_or_default();
        files.sort();
        let mut n = 0u64;
        let mut fps = vec![];
        for f in &files {
            let Ok(data) = std::fs::read(f) else { continue };
            n += 1;
            let r = catch_unwind(AssertUnwindSafe(|| crate::fuzz_targets::run(target, &data)));
            let r = match r {
                Ok(r) => r,
                Err(p) => Err(Failure::new(
                    format!("panic: {}", first_line(&exec::panic_message(&p))),
                    format!("panic in fuzz target {target}: {}", exec::panic_message(&p)),
                )),
            };
            match r {
                Ok(()) => fps.push(hash_of(&data)),
                Err(fl) if fl.signature == "infra" || fl.signature == "harness-bug" => {}
                Err(fl) => {
                    self.record_violation(
                        &format!("fuzz-corpus-{target}"),
                        fl,
                        &json!({"fuzz_target": target, "input_file": f.display().to_string()}),
                    );
                    return;
                }
            }
        }
        if n > 0 {
            self.record_external(
                &format!("fuzz-corpus-{target}"),
                &format!("replay of the {n} committed seed inputs of cargo-fuzz target {target} through the same target function (bytes -> proptest pass-through RNG -> the property's strategy -> the property's check)"),
                n,
                fps,
                vec![],
                vec![json!({"target": target, "inputs": n})],
            );
        }
    }

    /// A bounded libFuzzer campaign (thorough tier).  Infrastructure problems (no nightly, build
    /// failure) are recorded as notes, never as violations.
    pub fn fuzz_campaign(&self, target: &str, runs: u64) {
        if self.replay.is_some() || self.failed() || self.tier != Tier::Thorough {
            return;
        }
        let fuzz_dir = self.root.join("harness/fuzz");
        let work = fuzz_dir.join("work").join(target);
        let _ = std::fs::remove_dir_all(&work);
        let _ = std::fs::create_dir_all(&work);
        let artifacts = fuzz_dir.join("artifacts").join(target);
        let _ = std::fs::remove_dir_all(&artifacts);
        let seed = (self.seed % 0xffff_fffe) + 1;
        // bounded by executions and by time, whichever comes first (reaching the time bound is
        // the end of the exploration, not a verdict)
        let max_time: u64 = std::env::var("VERIF_FUZZ_TIME_S").ok().and_then(|v| v.parse().ok()).unwrap_or(600);
        let t0 = Instant::now();
        let out = std::process::Command::new("cargo")
            .current_dir(&fuzz_dir)
            .env("RUSTFLAGS", "--cfg gothenburgbitfactory_taskchampion_verif")
            .env("CARGO_NET_OFFLINE", "true")
            // the toolchain manager needs the real home directory, not the scratch one
            .env("HOME", std::env::var("VERIF_REAL_HOME").unwrap_or_else(|_| std::env::var("HOME").unwrap_or_default()))
            .args(["+nightly", "fuzz", "run", target])
            .arg(&work)
            .arg(fuzz_dir.join("corpus").join(target))
            .arg("--")
            .args([
                format!("-runs={runs}"),
                format!("-max_total_time={max_time}"),
                format!("-seed={seed}"),
                "-len_control=0".to_string(),
                "-max_len=4096".to_string(),
                "-print_final_stats=1".to_string(),
                "-timeout=120".to_string(),
            ])
            .output();
        let Ok(out) = out else {
            self.note(format!("fuzz campaign {target}: cargo fuzz could not be started"));
            return;
        };
        let text = format!("{}{}", String::from_utf8_lossy(&out.stdout), String::from_utf8_lossy(&out.stderr));
        let executed: u64 = text
            .lines()
            .find_map(|l| l.strip_prefix("stat::number_of_executed_units:"))
            .and_then(|v| v.trim().parse().ok())
            .unwrap_or(0);
        let crash = std::fs::read_dir(&artifacts)
            .ok()
            .and_then(|rd| rd.flatten().map(|e| e.path()).find(|p| p.file_name().map(|n| n.to_string_lossy().starts_with("crash-")).unwrap_or(false)));
        if let Some(artifact) = crash {
            let msg = text
                .lines()
                .find(|l| l.contains("VIOLATION property="))
                .unwrap_or("the fuzz target crashed")
                .to_string();
            let dir = self.root.join("failures");
            let _ = std::fs::create_dir_all(&dir);
            let dest = dir.join(format!("{}-fuzz-{}-{}", self.prop, target, artifact.file_name().unwrap().to_string_lossy()));
            let _ = std::fs::copy(&artifact, &dest);
            let mut st = self.state.lock().unwrap();
            st.samples.push(json!({"campaign": format!("fuzz-{target}"), "violating_input": dest.display().to_string(), "message": msg}));
            st.violations.push((format!("fuzz:{target}"), dest, msg));
            return;
        }
        if executed == 0 {
            self.note(format!(
                "fuzz campaign {target}: no executions recorded (build or infrastructure problem); last output: {}",
                text.lines().rev().take(3).collect::<Vec<_>>().join(" | ")
            ));
            return;
        }
        let corpus_n = std::fs::read_dir(&work).map(|rd| rd.count()).unwrap_or(0);
        self.record_external(
            &format!("fuzz-{target}"),
            &format!("libFuzzer campaign on cargo-fuzz target {target}: -runs={runs} -max_total_time={max_time} -seed={seed} -len_control=0 from the committed seed corpus; the semantic oracle is inside the target; non-trivial = inputs that reached new coverage (kept in the work corpus)"),
            executed,
            (0..corpus_n as u64).map(|i| hash_of(&(target, i))).collect(),
            vec![],
            vec![json!({"target": target, "executed": executed, "work_corpus": corpus_n, "wall_s": t0.elapsed().as_secs_f64()})],
        );
    }

    pub fn record_violation(&self, name: &str, f: Failure, case: &Value) {
        if self.is_open_known(&f.signature) {
            let mut st = self.state.lock().unwrap();
            *st.excluded_known.entry(f.signature.clone()).or_insert(0) += 1;
            return;
        }
        let path = self.write_failure(name, case, &f);
        let mut st = self.state.lock().unwrap();
        st.samples
            .push(json!({"campaign": name, "violating_case": case, "message": f.msg}));
        st.violations.push((f.signature, path, f.msg));
    }

    /// Write evidence, print verdict lines, return the process exit code.
    pub fn finish(&self) -> i32 {
        let st = self.state.lock().unwrap();
        let wall = self.start.elapsed().as_secs_f64();
        // known findings: one line per open finding of this property
        for k in self.open_known() {
            let n = st.excluded_known.get(&k.signature).copied().unwrap_or(0);
            println!(
                "KNOWN-FINDING: property={} {} [{}] (cases excluded this run: {})",
                self.prop, k.what, k.signature, n
            );
        }
        let mut samples = st.samples.clone();
        if samples.is_empty() {
            samples.push(json!({"note": "no non-trivial case was sampled in this run"}));
        }
        let evidence = json!({
            "property_id": self.prop,
            "tier": self.tier.name(),
            "seed": self.seed,
            "level": self.level,
            "coverage": {
                "evaluations": st.evaluations,
                "distinct_nontrivial": st.nontrivial.len(),
                "rule": st.rules.join(" || "),
                "samples": samples,
                "classes": st.classes,
                "campaigns": st.campaigns,
                "excluded_known": st.excluded_known,
                "exhaustive": st.exhaustive_all && st.any_campaign,
                "notes": st.notes,
                "replay": self.replay.as_ref().map(|p| p.display().to_string()),
            },
            "assumptions": st.assumptions,
            "wall_s": wall,
            "violations": st.violations.len(),
        });
        if self.replay.is_none() {
            let dir = self.root.join("evidence");
            let _ = std::fs::create_dir_all(&dir);
            let path = dir.join(format!("{}.json", self.prop));
            let tmp = dir.join(format!(".{}.json.tmp", self.prop));
            let _ = std::fs::write(&tmp, serde_json::to_string_pretty(&evidence).unwrap());
            let _ = std::fs::rename(&tmp, &path);
        }
        println!(
            "SUMMARY property={} tier={} seed={} evaluations={} distinct_nontrivial={} wall_s={:.1}",
            self.prop,
            self.tier.name(),
            self.seed,
            st.evaluations,
            st.nontrivial.len(),
            wall
        );
        for (c, n) in &st.classes {
            println!("  class {c}: {n}");
        }
        if st.violations.is_empty() {
            println!("PASS property={}", self.prop);
            0
        } else {
            for (sig, path, msg) in &st.violations {
                println!("--- violation [{sig}] ---\n{msg}");
                println!("VIOLATION property={} replay={}", self.prop, path.display());
            }
            1
        }
    }
}

fn first_line(s: &str) -> String {
    s.lines().next().unwrap_or("").chars().take(160).collect()
}

/// Helper: make a value tree and take its current value with a fixed seed (used to draw
/// deterministic values outside a campaign, e.g. for samples).
pub fn draw<S: Strategy>(s: &S, seed: u64) -> S::Value {
    let mut runner = TestRunner::new(Config {
        rng_seed: RngSeed::Fixed(seed),
        failure_persistence: None,
        ..Config::default()
    });
    s.new_tree(&mut runner).unwrap().current()
}

/// Monotone index mapping for generated pool indices (keeps shrinking effective).
pub fn pick(idx: u16, len: usize) -> usize {
    if len == 0 {
        0
    } else {
        ((idx as usize) * len) >> 16
    }
}

pub fn arc<T>(t: T) -> Arc<T> {
    Arc::new(t)
}
