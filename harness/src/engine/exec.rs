//! Minimal executors.  `block_on` drives a future on the current thread with a thread-parking
//! waker (enough for `Replica` over the in-memory storage, and for the SQLite storage whose
//! actor thread answers through tokio channels, which only need a waker).  `block_on_abortable`
//! additionally drops the future when an abort flag is raised while the future is pending; that
//! is how "the process stops at this storage call" is modelled.

use std::any::Any;
use std::future::Future;
use std::pin::Pin;
use std::sync::atomic::{AtomicBool, Ordering};
use std::sync::Arc;
use std::task::{Context, Poll, Wake, Waker};
use std::thread::Thread;
use std::time::Duration;

struct ParkWaker {
    thread: Thread,
    woken: AtomicBool,
}

impl Wake for ParkWaker {
    fn wake(self: Arc<Self>) {
        self.woken.store(true, Ordering::SeqCst);
        self.thread.unpark();
    }
    fn wake_by_ref(self: &Arc<Self>) {
        self.woken.store(true, Ordering::SeqCst);
        self.thread.unpark();
    }
}

pub fn block_on<F: Future>(fut: F) -> F::Output {
    let never = AtomicBool::new(false);
    block_on_abortable(fut, &never).expect("future aborted without an abort flag")
}

/// Drive `fut`; if it is pending and `abort` is set, drop it and return None.
pub fn block_on_abortable<F: Future>(fut: F, abort: &AtomicBool) -> Option<F::Output> {
    let mut fut = Box::pin(fut);
    let pw = Arc::new(ParkWaker {
        thread: std::thread::current(),
        woken: AtomicBool::new(false),
    });
    let waker: Waker = pw.clone().into();
    let mut cx = Context::from_waker(&waker);
    loop {
        pw.woken.store(false, Ordering::SeqCst);
        match fut.as_mut().poll(&mut cx) {
            Poll::Ready(v) => return Some(v),
            Poll::Pending => {
                if abort.load(Ordering::SeqCst) {
                    drop(fut);
                    return None;
                }
                while !pw.woken.load(Ordering::SeqCst) {
                    std::thread::park_timeout(Duration::from_millis(50));
                    if abort.load(Ordering::SeqCst) {
                        drop(fut);
                        return None;
                    }
                }
            }
        }
    }
}

/// A future that is pending exactly once.  Used as the scheduling point ("gate") in front of
/// every server / object-store request.
pub struct YieldOnce(bool);

pub fn yield_once() -> YieldOnce {
    YieldOnce(false)
}

impl Future for YieldOnce {
    type Output = ();
    fn poll(mut self: Pin<&mut Self>, cx: &mut Context<'_>) -> Poll<()> {
        if self.0 {
            Poll::Ready(())
        } else {
            self.0 = true;
            cx.waker().wake_by_ref();
            Poll::Pending
        }
    }
}

pub fn panic_message(p: &Box<dyn Any + Send>) -> String {
    if let Some(s) = p.downcast_ref::<&str>() {
        s.to_string()
    } else if let Some(s) = p.downcast_ref::<String>() {
        s.clone()
    } else {
        "non-string panic payload".to_string()
    }
}

thread_local! {
    pub static LAST_PANIC_LOCATION: std::cell::RefCell<Option<String>> = const { std::cell::RefCell::new(None) };
}

/// Install a quiet panic hook: panics inside checks are caught and turned into failures, so
/// the default hook's output would only be noise (and thousands of lines while shrinking).
pub fn install_quiet_panic_hook() {
    let verbose = std::env::var("VERIF_VERBOSE_PANICS").is_ok();
    let default = std::panic::take_hook();
    std::panic::set_hook(Box::new(move |info| {
        let loc = info
            .location()
            .map(|l| format!("{}:{}", l.file(), l.line()))
            .unwrap_or_default();
        LAST_PANIC_LOCATION.with(|c| *c.borrow_mut() = Some(loc));
        if verbose {
            default(info);
        }
    }));
}

pub fn last_panic_location() -> String {
    LAST_PANIC_LOCATION.with(|c| c.borrow().clone().unwrap_or_default())
}
