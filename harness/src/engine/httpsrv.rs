//! A sync server written from docs/src/http.md, over std::net on 127.0.0.1.  It keeps one
//! version chain per client id, records every request body, and can answer a
//! get-child-version with tampered data.

use std::collections::HashMap;
use std::io::{BufRead, BufReader, Read, Write};
use std::net::{TcpListener, TcpStream};
use std::sync::atomic::{AtomicBool, Ordering};
use std::sync::{Arc, Mutex};
use taskchampion::Uuid;

pub const HS_CT: &str = "application/vnd.taskchampion.history-segment";
pub const SNAP_CT: &str = "application/vnd.taskchampion.snapshot";

#[derive(Clone, Debug)]
pub struct Recorded {
    pub client: Uuid,
    pub kind: &'static str, // "add-version" | "add-snapshot"
    pub id_in_url: Uuid,
    pub body: Vec<u8>,
    pub content_type: String,
}

#[derive(Clone, Debug, PartialEq, Eq)]
pub enum Tamper {
    None,
    /// answer get-child-version with the body of another stored version
    SwapBody,
    /// flip one bit in the body
    FlipBit(usize),
    /// label the reply with a different X-Version-Id / X-Parent-Version-Id
    WrongParentHeader,
}

#[derive(Default)]
pub struct ClientChain {
    pub versions: Vec<(Uuid, Uuid, Vec<u8>)>, // id, parent, body
    pub snapshot: Option<(Uuid, Vec<u8>)>,
}

pub struct HttpState {
    pub chains: HashMap<Uuid, ClientChain>,
    pub recorded: Vec<Recorded>,
    pub next_id: u128,
    /// urgency header sent with accepted versions: 0 none, 1 low, 2 high
    pub urgency: u8,
    /// when not empty: the urgency stated with the next accepted versions (front first); `urgency`
    /// applies once it is used up
    pub urgency_script: std::collections::VecDeque<u8>,
    /// what was stated with every accepted version: (version id, urgency)
    pub stated: Vec<(Uuid, u8)>,
    pub tamper: Tamper,
    pub protocol_errors: Vec<String>,
}

pub struct HttpServer {
    pub state: Arc<Mutex<HttpState>>,
    pub url: String,
    stop: Arc<AtomicBool>,
    addr: std::net::SocketAddr,
}

impl HttpServer {
    pub fn start() -> std::io::Result<HttpServer> {
        let listener = TcpListener::bind("127.0.0.1:0")?;
        let addr = listener.local_addr()?;
        let state = Arc::new(Mutex::new(HttpState {
            chains: HashMap::new(),
            recorded: vec![],
            next_id: 1,
            urgency: 0,
            urgency_script: Default::default(),
            stated: vec![],
            tamper: Tamper::None,
            protocol_errors: vec![],
        }));
        let stop = Arc::new(AtomicBool::new(false));
        {
            let state = state.clone();
            let stop = stop.clone();
            std::thread::spawn(move || {
                for conn in listener.incoming() {
                    if stop.load(Ordering::SeqCst) {
                        break;
                    }
                    if let Ok(stream) = conn {
                        let state = state.clone();
                        std::thread::spawn(move || {
                            let _ = serve(stream, state);
                        });
                    }
                }
            });
        }
        Ok(HttpServer {
            state,
            url: format!("http://{addr}/base/"),
            stop,
            addr,
        })
    }
}

impl Drop for HttpServer {
    fn drop(&mut self) {
        self.stop.store(true, Ordering::SeqCst);
        // wake the accept loop
        let _ = TcpStream::connect(self.addr);
    }
}

fn respond(stream: &mut TcpStream, status: &str, headers: &[(&str, String)], body: &[u8]) -> std::io::Result<()> {
    let mut out = format!("HTTP/1.1 {status}\r\nContent-Length: {}\r\n", body.len());
    for (k, v) in headers {
        out.push_str(&format!("{k}: {v}\r\n"));
    }
    out.push_str("\r\n");
    stream.write_all(out.as_bytes())?;
    stream.write_all(body)?;
    stream.flush()
}

fn serve(stream: TcpStream, state: Arc<Mutex<HttpState>>) -> std::io::Result<()> {
    stream.set_nodelay(true)?;
    let mut reader = BufReader::new(stream.try_clone()?);
    let mut stream = stream;
    loop {
        let mut line = String::new();
        if reader.read_line(&mut line)? == 0 {
            return Ok(());
        }
        let mut parts = line.split_whitespace();
        let method = parts.next().unwrap_or("").to_string();
        let path = parts.next().unwrap_or("").to_string();
        let mut headers: HashMap<String, String> = HashMap::new();
        loop {
            let mut h = String::new();
            if reader.read_line(&mut h)? == 0 {
                return Ok(());
            }
            let h = h.trim_end();
            if h.is_empty() {
                break;
            }
            if let Some((k, v)) = h.split_once(':') {
                headers.insert(k.trim().to_ascii_lowercase(), v.trim().to_string());
            }
        }
        let len: usize = headers.get("content-length").and_then(|v| v.parse().ok()).unwrap_or(0);
        let mut body = vec![0u8; len];
        reader.read_exact(&mut body)?;

        let mut st = state.lock().unwrap();
        let client = headers.get("x-client-id").and_then(|v| Uuid::parse_str(v).ok());
        let Some(client) = client else {
            st.protocol_errors.push(format!("{method} {path}: missing or invalid X-Client-Id"));
            drop(st);
            respond(&mut stream, "400 Bad Request", &[], b"")?;
            continue;
        };
        if headers.get("x-client-id").map(|v| v.as_str()) != Some(client.hyphenated().to_string().as_str()) {
            st.protocol_errors.push("X-Client-Id is not in dashed-hex format".into());
        }
        let tail = path.strip_prefix("/base/v1/client/").unwrap_or("");
        let ct = headers.get("content-type").cloned().unwrap_or_default();
        if let Some(p) = tail.strip_prefix("add-version/") {
            let Ok(parent) = Uuid::parse_str(p) else {
                drop(st);
                respond(&mut stream, "400 Bad Request", &[], b"")?;
                continue;
            };
            if method != "POST" || ct != HS_CT {
                st.protocol_errors.push(format!("add-version with method {method} and content-type {ct:?}"));
            }
            st.recorded.push(Recorded {
                client,
                kind: "add-version",
                id_in_url: parent,
                body: body.clone(),
                content_type: ct,
            });
            let id = Uuid::from_u128(0x4771_0000_0000 + st.next_id);
            let chain = st.chains.entry(client).or_default();
            let latest = chain.versions.last().map(|v| v.0);
            if latest.is_none() || latest == Some(parent) {
                chain.versions.push((id, parent, body));
                st.next_id += 1;
                let urgency = st.urgency_script.pop_front().unwrap_or(st.urgency);
                st.stated.push((id, urgency));
                drop(st);
                let mut hs = vec![("X-Version-Id", id.to_string())];
                match urgency {
                    1 => hs.push(("X-Snapshot-Request", "urgency=low".into())),
                    2 => hs.push(("X-Snapshot-Request", "urgency=high".into())),
                    _ => {}
                }
                respond(&mut stream, "200 OK", &hs, b"")?;
            } else {
                let l = latest.unwrap();
                drop(st);
                respond(&mut stream, "409 Conflict", &[("X-Parent-Version-Id", l.to_string())], b"")?;
            }
        } else if let Some(p) = tail.strip_prefix("get-child-version/") {
            let Ok(parent) = Uuid::parse_str(p) else {
                drop(st);
                respond(&mut stream, "400 Bad Request", &[], b"")?;
                continue;
            };
            if method != "GET" {
                st.protocol_errors.push(format!("get-child-version with method {method}"));
            }
            let tamper = st.tamper.clone();
            let chain = st.chains.entry(client).or_default();
            let found = chain.versions.iter().find(|v| v.1 == parent).cloned();
            match found {
                Some((id, parent, mut body)) => {
                    let mut parent_hdr = parent;
                    match tamper {
                        Tamper::None => {}
                        Tamper::SwapBody => {
                            if let Some(other) = chain.versions.iter().find(|v| v.0 != id) {
                                body = other.2.clone();
                            }
                        }
                        Tamper::FlipBit(i) => {
                            if !body.is_empty() {
                                let n = body.len();
                                body[i % n] ^= 1 << (i % 8);
                            }
                        }
                        Tamper::WrongParentHeader => {
                            parent_hdr = Uuid::from_u128(parent.as_u128() ^ 1);
                        }
                    }
                    drop(st);
                    respond(
                        &mut stream,
                        "200 OK",
                        &[
                            ("Content-Type", HS_CT.into()),
                            ("X-Version-Id", id.to_string()),
                            ("X-Parent-Version-Id", parent_hdr.to_string()),
                        ],
                        &body,
                    )?;
                }
                None => {
                    drop(st);
                    respond(&mut stream, "404 Not Found", &[], b"")?;
                }
            }
        } else if let Some(v) = tail.strip_prefix("add-snapshot/") {
            let Ok(vid) = Uuid::parse_str(v) else {
                drop(st);
                respond(&mut stream, "400 Bad Request", &[], b"")?;
                continue;
            };
            if method != "POST" || ct != SNAP_CT {
                st.protocol_errors.push(format!("add-snapshot with method {method} and content-type {ct:?}"));
            }
            st.recorded.push(Recorded {
                client,
                kind: "add-snapshot",
                id_in_url: vid,
                body: body.clone(),
                content_type: ct,
            });
            let chain = st.chains.entry(client).or_default();
            if chain.versions.iter().any(|x| x.0 == vid) {
                chain.snapshot = Some((vid, body));
                drop(st);
                respond(&mut stream, "200 OK", &[], b"")?;
            } else {
                drop(st);
                respond(&mut stream, "400 Bad Request", &[], b"")?;
            }
        } else if tail == "snapshot" {
            let tamper = st.tamper.clone();
            let chain = st.chains.entry(client).or_default();
            match chain.snapshot.clone() {
                Some((mut vid, mut body)) => {
                    match tamper {
                        Tamper::None => {}
                        Tamper::SwapBody => {
                            if let Some(other) = chain.versions.first() {
                                body = other.2.clone();
                            }
                        }
                        Tamper::FlipBit(i) => {
                            if !body.is_empty() {
                                let n = body.len();
                                body[i % n] ^= 1 << (i % 8);
                            }
                        }
                        Tamper::WrongParentHeader => {
                            vid = Uuid::from_u128(vid.as_u128() ^ 1);
                        }
                    }
                    drop(st);
                    respond(
                        &mut stream,
                        "200 OK",
                        &[("Content-Type", SNAP_CT.into()), ("X-Version-Id", vid.to_string())],
                        &body,
                    )?;
                }
                None => {
                    drop(st);
                    respond(&mut stream, "404 Not Found", &[], b"")?;
                }
            }
        } else {
            st.protocol_errors.push(format!("unknown endpoint {method} {path}"));
            drop(st);
            respond(&mut stream, "404 Not Found", &[], b"")?;
        }
    }
}

/// Adaptor: a `Server` whose calls need a tokio reactor (the HTTP client), driven from the
/// harness's own executor by blocking on a private current-thread runtime.
pub struct Blocking {
    pub rt: tokio::runtime::Runtime,
    pub inner: Box<dyn taskchampion::Server>,
}

impl Blocking {
    pub fn new(cfg: taskchampion::ServerConfig) -> Result<Blocking, taskchampion::Error> {
        let rt = tokio::runtime::Builder::new_current_thread()
            .enable_all()
            .build()
            .map_err(|e| taskchampion::Error::Server(format!("tokio runtime: {e}")))?;
        let inner = rt.block_on(cfg.into_server())?;
        Ok(Blocking { rt, inner })
    }
}

#[async_trait::async_trait(?Send)]
impl taskchampion::Server for Blocking {
    async fn add_version(
        &mut self,
        parent_version_id: taskchampion::server::VersionId,
        history_segment: taskchampion::server::HistorySegment,
    ) -> Result<(taskchampion::server::AddVersionResult, taskchampion::server::SnapshotUrgency), taskchampion::Error> {
        self.rt.block_on(self.inner.add_version(parent_version_id, history_segment))
    }
    async fn get_child_version(
        &mut self,
        parent_version_id: taskchampion::server::VersionId,
    ) -> Result<taskchampion::server::GetVersionResult, taskchampion::Error> {
        self.rt.block_on(self.inner.get_child_version(parent_version_id))
    }
    async fn add_snapshot(
        &mut self,
        version_id: taskchampion::server::VersionId,
        snapshot: taskchampion::server::Snapshot,
    ) -> Result<(), taskchampion::Error> {
        self.rt.block_on(self.inner.add_snapshot(version_id, snapshot))
    }
    async fn get_snapshot(
        &mut self,
    ) -> Result<Option<(taskchampion::server::VersionId, taskchampion::server::Snapshot)>, taskchampion::Error> {
        self.rt.block_on(self.inner.get_snapshot())
    }
}
