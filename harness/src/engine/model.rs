//! Reference model of the task database, written from docs/src/sync-model.md and storage.md.
//! It shares no code with the repository: versions are parsed as `serde_json::Value`.

use chrono::{DateTime, TimeZone, Utc};
use serde::{Deserialize, Serialize};
use serde_json::Value;
use std::collections::BTreeMap;
use taskchampion::{Operation, Uuid};

pub type Props = BTreeMap<String, String>;

#[derive(Clone, Debug, Default, PartialEq, Eq, Hash, Serialize, Deserialize)]
pub struct Model(pub BTreeMap<Uuid, Props>);

/// A synchronized operation as the documentation defines it.
#[derive(Clone, Debug, PartialEq, Eq, Hash, Serialize, Deserialize)]
pub enum MOp {
    Create(Uuid),
    Delete(Uuid),
    Update(Uuid, String, Option<String>, String), // uuid, property, value, raw timestamp text
}

impl MOp {
    pub fn uuid(&self) -> Uuid {
        match self {
            MOp::Create(u) | MOp::Delete(u) | MOp::Update(u, ..) => *u,
        }
    }
}

impl Model {
    pub fn new() -> Self {
        Model(BTreeMap::new())
    }

    /// create makes an empty task unless it exists; update sets/removes one property of an
    /// existing task; delete removes an existing task; anything on a missing task is a no-op.
    pub fn apply(&mut self, op: &MOp) {
        match op {
            MOp::Create(u) => {
                self.0.entry(*u).or_default();
            }
            MOp::Delete(u) => {
                self.0.remove(u);
            }
            MOp::Update(u, p, v, _) => {
                if let Some(t) = self.0.get_mut(u) {
                    match v {
                        Some(v) => {
                            t.insert(p.clone(), v.clone());
                        }
                        None => {
                            t.remove(p);
                        }
                    }
                }
            }
        }
    }

    pub fn apply_all<'a>(&mut self, ops: impl IntoIterator<Item = &'a MOp>) {
        for op in ops {
            self.apply(op);
        }
    }

    pub fn apply_operation(&mut self, op: &Operation) {
        if let Some(m) = mop_of_operation(op) {
            self.apply(&m);
        }
    }

    pub fn from_pairs<I, P>(it: I) -> Self
    where
        I: IntoIterator<Item = (Uuid, P)>,
        P: IntoIterator<Item = (String, String)>,
    {
        Model(
            it.into_iter()
                .map(|(u, p)| (u, p.into_iter().collect()))
                .collect(),
        )
    }

    pub fn render(&self) -> Value {
        let mut m = serde_json::Map::new();
        for (u, p) in &self.0 {
            let mut o = serde_json::Map::new();
            for (k, v) in p {
                let v = if v.len() > 80 {
                    let head: String = v.chars().take(24).collect();
                    format!("{head}...({} bytes)", v.len())
                } else {
                    v.clone()
                };
                o.insert(k.clone(), Value::String(v));
            }
            m.insert(short(*u), Value::Object(o));
        }
        Value::Object(m)
    }
}

pub fn short(u: Uuid) -> String {
    let n = u.as_u128();
    if n < 0x1_0000_0000 {
        format!("#{n:x}")
    } else {
        u.to_string()
    }
}

pub fn mop_of_operation(op: &Operation) -> Option<MOp> {
    match op {
        Operation::Create { uuid } => Some(MOp::Create(*uuid)),
        Operation::Delete { uuid, .. } => Some(MOp::Delete(*uuid)),
        Operation::Update {
            uuid,
            property,
            value,
            timestamp,
            ..
        } => Some(MOp::Update(
            *uuid,
            property.clone(),
            value.clone(),
            timestamp.to_rfc3339(),
        )),
        Operation::UndoPoint => None,
    }
}

/// Parse a history segment (plaintext at the `Server` trait boundary) with an independent JSON
/// reader.  Accepts the `{"operations":[...]}` wrapper the implementation has always used as
/// well as the bare list shown in sync-protocol.md.
pub fn parse_version(bytes: &[u8]) -> Result<Vec<MOp>, String> {
    let text = std::str::from_utf8(bytes).map_err(|e| format!("version is not UTF-8: {e}"))?;
    let v: Value = serde_json::from_str(text).map_err(|e| format!("version is not JSON: {e}"))?;
    let list = match &v {
        Value::Array(a) => a,
        Value::Object(o) => match o.get("operations") {
            Some(Value::Array(a)) => a,
            _ => return Err("version object without an 'operations' list".into()),
        },
        _ => return Err("version is neither a list nor an object".into()),
    };
    let mut out = Vec::with_capacity(list.len());
    for item in list {
        let obj = item
            .as_object()
            .ok_or_else(|| format!("operation is not an object: {item}"))?;
        if obj.len() != 1 {
            return Err(format!("operation must have exactly one key: {item}"));
        }
        let (kind, data) = obj.iter().next().unwrap();
        let data = data
            .as_object()
            .ok_or_else(|| format!("operation data is not an object: {item}"))?;
        let uuid = data
            .get("uuid")
            .and_then(|u| u.as_str())
            .and_then(|s| Uuid::parse_str(s).ok())
            .ok_or_else(|| format!("operation without a valid uuid: {item}"))?;
        match kind.as_str() {
            "Create" => out.push(MOp::Create(uuid)),
            "Delete" => out.push(MOp::Delete(uuid)),
            "Update" => {
                let prop = data
                    .get("property")
                    .and_then(|p| p.as_str())
                    .ok_or_else(|| format!("update without property: {item}"))?;
                let value = match data.get("value") {
                    Some(Value::Null) | None => None,
                    Some(Value::String(s)) => Some(s.clone()),
                    Some(other) => return Err(format!("update value is not string/null: {other}")),
                };
                let ts = data
                    .get("timestamp")
                    .and_then(|p| p.as_str())
                    .ok_or_else(|| format!("update without timestamp: {item}"))?;
                out.push(MOp::Update(uuid, prop.to_string(), value, ts.to_string()));
            }
            other => return Err(format!("unknown operation kind {other}")),
        }
    }
    Ok(out)
}

/// Replay a chain of history segments over the empty task set.
pub fn replay_chain<'a>(segments: impl IntoIterator<Item = &'a [u8]>) -> Result<Model, String> {
    let mut m = Model::new();
    for seg in segments {
        for op in parse_version(seg)? {
            m.apply(&op);
        }
    }
    Ok(m)
}

/// Fixed pool of task uuids: small integers so that cases are readable.
pub fn task_uuid(i: usize) -> Uuid {
    Uuid::from_u128(0xa0 + i as u128)
}

/// Timestamps used in generated operations: base + n * 400 ms, so that generated pools contain
/// instants less than a second apart as well as instants in different seconds.
pub fn ts(k: i64) -> DateTime<Utc> {
    let ms = 1_700_000_000_000i64 + k * 400;
    Utc.timestamp_opt(ms.div_euclid(1000), (ms.rem_euclid(1000) * 1_000_000) as u32)
        .unwrap()
}

pub fn ts_ns(secs: i64, nanos: u32) -> DateTime<Utc> {
    Utc.timestamp_opt(1_700_000_000 + secs, nanos).unwrap()
}
