#![allow(dead_code)]
//! tcverif — property-based verification harness for taskchampion.
//! usage: tcverif <PROPERTY> [--tier quick|thorough] [--seed N] [--replay FILE]

mod engine;
mod props;

use engine::{Engine, Tier};
use std::path::PathBuf;

fn level_of(prop: &str) -> &'static str {
    match prop {
        "C04" | "C06" | "C11" => "fault_enumeration",
        _ => "exploration",
    }
}

fn main() {
    let args: Vec<String> = std::env::args().collect();
    if args.len() < 2 {
        eprintln!("usage: tcverif <PROPERTY> [--tier quick|thorough] [--seed N] [--replay FILE]");
        std::process::exit(2);
    }
    let prop_arg = args[1].to_uppercase();
    if prop_arg == "SELFTEST" {
        match engine::crypto::self_test() {
            Ok(()) => {
                println!("crypto self-test ok");
                std::process::exit(0)
            }
            Err(e) => {
                println!("crypto self-test FAILED: {e}");
                std::process::exit(2)
            }
        }
    }
    // child-process modes (used by C06 / C17) are dispatched before anything else
    if let Some(code) = props::child_mode(&args) {
        std::process::exit(code);
    }
    let mut tier = match std::env::var("VERIF_TIER").as_deref() {
        Ok("thorough") => Tier::Thorough,
        _ => Tier::Quick,
    };
    let mut seed: u64 = std::env::var("VERIF_SEED")
        .ok()
        .and_then(|s| s.trim().parse::<i128>().ok())
        .map(|v| v as u64)
        .unwrap_or(20260923);
    let mut replay: Option<PathBuf> = None;
    let mut i = 2;
    while i < args.len() {
        match args[i].as_str() {
            "--tier" => {
                i += 1;
                tier = match args.get(i).map(|s| s.as_str()) {
                    Some("thorough") => Tier::Thorough,
                    Some("quick") => Tier::Quick,
                    other => {
                        eprintln!("bad tier {other:?}");
                        std::process::exit(2)
                    }
                };
            }
            "--seed" => {
                i += 1;
                seed = args
                    .get(i)
                    .and_then(|s| s.parse::<i128>().ok())
                    .map(|v| v as u64)
                    .unwrap_or_else(|| {
                        eprintln!("bad seed");
                        std::process::exit(2)
                    });
            }
            "--replay" => {
                i += 1;
                replay = args.get(i).map(PathBuf::from);
            }
            other => {
                eprintln!("unknown argument {other}");
                std::process::exit(2);
            }
        }
        i += 1;
    }
    let Some((id, f)) = props::lookup(&prop_arg) else {
        eprintln!("unknown property {prop_arg}");
        std::process::exit(2);
    };
    engine::exec::install_quiet_panic_hook();
    // watchdog: a hang is inconclusive (exit 2), never a violation
    let limit = std::env::var("VERIF_WATCHDOG_S")
        .ok()
        .and_then(|s| s.parse::<u64>().ok())
        .unwrap_or(match tier {
            Tier::Quick => 1500,
            Tier::Thorough => 6 * 3600,
        });
    std::thread::spawn(move || {
        std::thread::sleep(std::time::Duration::from_secs(limit));
        println!("INCONCLUSIVE property={id} watchdog after {limit}s");
        std::process::exit(2);
    });
    let e = Engine::new(id, level_of(id), tier, seed, replay);
    f(&e);
    std::process::exit(e.finish());
}
