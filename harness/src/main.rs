//! tcverif — property-based verification harness for taskchampion.
//! usage: tcverif <PROPERTY> [--tier quick|thorough] [--seed N] [--replay FILE]

use tcverif::engine::{self, Engine, Tier};
use tcverif::props;
use std::path::PathBuf;

fn level_of(prop: &str) -> &'static str {
    match prop {
        "C04" | "C06" | "C11" => "fault_enumeration",
        _ => "exploration",
    }
}

fn main() {
    let args: Vec<String> = std::env::args().collect();
    if args.len() < 2 {
        eprintln!("usage: tcverif <PROPERTY> [--tier quick|thorough] [--seed N] [--replay FILE]");
        std::process::exit(2);
    }
    let prop_arg = args[1].to_uppercase();
    if prop_arg == "GEN-CORPUS" {
        // deterministic seed corpus for the cargo-fuzz targets
        let dir = std::path::Path::new(&args[2]);
        for t in tcverif::fuzz_targets::TARGETS {
            let d = dir.join(t);
            std::fs::create_dir_all(&d).unwrap();
            let mut x: u64 = 0x9E37_79B9_7F4A_7C15 ^ (t.len() as u64 * 77);
            for k in 0..24 {
                let len = [48usize, 96, 192, 384, 768, 1536][k % 6] + k;
                let mut buf = Vec::with_capacity(len);
                for _ in 0..len {
                    x ^= x << 13;
                    x ^= x >> 7;
                    x ^= x << 17;
                    // bias towards small values: they select the common alternatives
                    buf.push(if k % 2 == 0 { (x >> 32) as u8 } else { ((x >> 32) as u8) / 3 });
                }
                std::fs::write(d.join(format!("seed-{k:02}")), buf).unwrap();
            }
        }
        std::process::exit(0);
    }
    if prop_arg == "FUZZ-PROBE" {
        // how long does case generation take for each corpus file?
        let dir = std::path::Path::new(&args[3]);
        for ent in std::fs::read_dir(dir).unwrap().flatten() {
            let data = std::fs::read(ent.path()).unwrap();
            let t0 = std::time::Instant::now();
            let r = tcverif::fuzz_targets::run(&args[2], &data);
            println!("{:?} {} bytes -> {:?} in {:?}", ent.file_name(), data.len(), r.map_err(|f| f.signature), t0.elapsed());
        }
        std::process::exit(0);
    }
    if prop_arg == "FUZZ-REPLAY" {
        let data = std::fs::read(&args[3]).expect("read input");
        match tcverif::fuzz_targets::run(&args[2], &data) {
            Ok(()) => {
                println!("REPLAY PASS target={}", args[2]);
                std::process::exit(0)
            }
            Err(f) => {
                println!("REPLAY FAIL target={} signature={}\n{}", args[2], f.signature, f.msg);
                println!("VIOLATION property={} replay={}", tcverif::fuzz_targets::property_of(&args[2]), args[3]);
                std::process::exit(1)
            }
        }
    }
    if prop_arg == "SELFTEST" {
        match engine::crypto::self_test() {
            Ok(()) => {
                println!("crypto self-test ok");
                std::process::exit(0)
            }
            Err(e) => {
                println!("crypto self-test FAILED: {e}");
                std::process::exit(2)
            }
        }
    }
    // child-process modes (used by C06 / C17) are dispatched before anything else
    if let Some(code) = props::child_mode(&args) {
        std::process::exit(code);
    }
    let mut tier = match std::env::var("VERIF_TIER").as_deref() {
        Ok("thorough") => Tier::Thorough,
        _ => Tier::Quick,
    };
    let mut seed: u64 = std::env::var("VERIF_SEED")
        .ok()
        .and_then(|s| s.trim().parse::<i128>().ok())
        .map(|v| v as u64)
        .unwrap_or(20260923);
    let mut replay: Option<PathBuf> = None;
    let mut i = 2;
    while i < args.len() {
        match args[i].as_str() {
            "--tier" => {
                i += 1;
                tier = match args.get(i).map(|s| s.as_str()) {
                    Some("thorough") => Tier::Thorough,
                    Some("quick") => Tier::Quick,
                    other => {
                        eprintln!("bad tier {other:?}");
                        std::process::exit(2)
                    }
                };
            }
            "--seed" => {
                i += 1;
                seed = args
                    .get(i)
                    .and_then(|s| s.parse::<i128>().ok())
                    .map(|v| v as u64)
                    .unwrap_or_else(|| {
                        eprintln!("bad seed");
                        std::process::exit(2)
                    });
            }
            "--replay" => {
                i += 1;
                replay = args.get(i).map(PathBuf::from);
            }
            other => {
                eprintln!("unknown argument {other}");
                std::process::exit(2);
            }
        }
        i += 1;
    }
    if let Some(path) = &replay {
        let is_json = std::fs::read(path).ok().and_then(|b| serde_json::from_slice::<serde_json::Value>(&b).ok()).is_some();
        if !is_json {
            // a fuzz artifact: run it through the property's fuzz target
            let target = tcverif::fuzz_targets::TARGETS
                .iter()
                .find(|t| tcverif::fuzz_targets::property_of(t) == prop_arg)
                .copied();
            if let Some(t) = target {
                let data = std::fs::read(path).unwrap_or_default();
                match tcverif::fuzz_targets::run(t, &data) {
                    Ok(()) => {
                        println!("REPLAY PASS target={t}");
                        std::process::exit(0)
                    }
                    Err(f) => {
                        println!("REPLAY FAIL target={t} signature={}\n{}", f.signature, f.msg);
                        println!("VIOLATION property={prop_arg} replay={}", path.display());
                        std::process::exit(1)
                    }
                }
            }
        }
    }
    let Some((id, f)) = props::lookup(&prop_arg) else {
        eprintln!("unknown property {prop_arg}");
        std::process::exit(2);
    };
    engine::exec::install_quiet_panic_hook();
    // watchdog: a hang is inconclusive (exit 2), never a violation
    let limit = std::env::var("VERIF_WATCHDOG_S")
        .ok()
        .and_then(|s| s.parse::<u64>().ok())
        .unwrap_or(match tier {
            Tier::Quick => 7200,
            Tier::Thorough => 6 * 3600,
        });
    std::thread::spawn(move || {
        std::thread::sleep(std::time::Duration::from_secs(limit));
        println!("INCONCLUSIVE property={id} watchdog after {limit}s");
        std::process::exit(2);
    });
    let e = Engine::new(id, level_of(id), tier, seed, replay);
    f(&e);
    std::process::exit(e.finish());
}
