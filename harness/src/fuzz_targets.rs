//! Coverage-guided fuzz targets.  Each target decodes the fuzzer's bytes into the SAME structured
//! case type the property check uses (hand-written decoders with key / value dictionaries; the
//! pass-through RNG of proptest was tried and abandoned: nested strategies split the byte range
//! and samplers that reject spin forever on the zero tail), and then runs the same check
//! function, so the semantic oracle is inside the target.  The targets are compiled into the normal harness binary as well, so
//! that the committed corpus and any crash artifact can be replayed without libFuzzer.

use crate::engine::crypto::{doc_derive_key, doc_open};
use crate::engine::Failure;
use crate::props;
use std::sync::OnceLock;
use taskchampion::server::verif::Cryptor;
use taskchampion::Uuid;

pub const TARGETS: [&str; 7] = [
    "c01_history",
    "c05_batch",
    "c09_sched",
    "c13_unseal",
    "c14_inbound",
    "c16_lockstep",
    "c18_read",
];

pub fn property_of(target: &str) -> &'static str {
    match target {
        "c01_history" => "C01",
        "c05_batch" => "C05",
        "c09_sched" => "C09",
        "c13_unseal" => "C13",
        "c14_inbound" => "C14",
        "c16_lockstep" => "C16",
        _ => "C18",
    }
}

/// Byte source for the structure-aware decoders below (reads zeros once exhausted, so every
/// decoder terminates and shorter inputs give shorter cases).
pub struct Src<'a> {
    d: &'a [u8],
    i: usize,
}

impl<'a> Src<'a> {
    pub fn new(d: &'a [u8]) -> Self {
        Src { d, i: 0 }
    }
    pub fn u8(&mut self) -> u8 {
        let b = self.d.get(self.i).copied().unwrap_or(0);
        self.i += 1;
        b
    }
    pub fn u16(&mut self) -> u16 {
        u16::from_le_bytes([self.u8(), self.u8()])
    }
    pub fn u32(&mut self) -> u32 {
        u32::from_le_bytes([self.u8(), self.u8(), self.u8(), self.u8()])
    }
    pub fn below(&mut self, n: usize) -> usize {
        if n == 0 {
            0
        } else {
            self.u8() as usize % n
        }
    }
    pub fn flag(&mut self) -> bool {
        self.u8() & 1 == 1
    }
    pub fn left(&self) -> usize {
        self.d.len().saturating_sub(self.i)
    }
    pub fn rest(&mut self) -> Vec<u8> {
        let r = self.d.get(self.i..).unwrap_or(&[]).to_vec();
        self.i = self.d.len();
        r
    }
    /// a short string: from a dictionary or raw (lossy UTF-8)
    pub fn string(&mut self, dict: &[&str]) -> String {
        let k = self.u8();
        if !dict.is_empty() && k < 160 {
            dict[k as usize % dict.len()].to_string()
        } else {
            let n = self.below(10);
            let bytes: Vec<u8> = (0..n).map(|_| self.u8()).collect();
            String::from_utf8_lossy(&bytes).into_owned()
        }
    }
}

fn dec_intent(s: &mut Src, tasks: u8) -> props::common::Intent {
    use props::common::Intent;
    let t = s.below(tasks as usize) as u8;
    match s.below(8) {
        0 => Intent::Create { t },
        1 => Intent::Delete { t },
        2 => Intent::Cdc { t, ts: s.below(5) as i8 - 2 },
        3 => Intent::Undo,
        _ => Intent::Set { t, p: s.below(3) as u8, v: s.below(6) as u8, ts: s.below(5) as i8 - 2 },
    }
}

fn dec_history(s: &mut Src) -> props::common::History {
    use props::common::{Action, History};
    let replicas = 2 + s.below(3) as u8;
    let mut actions = vec![];
    while s.left() > 0 && actions.len() < 40 {
        let r = s.below(replicas as usize) as u8;
        if s.below(5) < 2 {
            actions.push(Action::Sync { r });
        } else {
            let n = 1 + s.below(4);
            actions.push(Action::Commit { r, intents: (0..n).map(|_| dec_intent(s, 3)).collect() });
        }
    }
    History { replicas, actions }
}

fn dec_c05(s: &mut Src) -> props::c05::Case {
    use props::c05::{BOp, Case, Step};
    let mut steps = vec![];
    while s.left() > 0 && steps.len() < 6 {
        if s.below(7) == 0 {
            steps.push(Step::Sync);
        } else {
            let n = 1 + s.below(8);
            let mut b = vec![];
            for _ in 0..n {
                let t = s.below(3) as u8;
                b.push(match s.below(8) {
                    0 | 1 => BOp::Create { t },
                    2 | 3 => BOp::Delete { t, junk_old: s.flag() },
                    4 => BOp::Undo,
                    _ => BOp::Update {
                        t,
                        p: s.below(4) as u8,
                        v: if s.below(4) == 0 { None } else { Some(s.below(4) as u8) },
                        old: s.below(3) as u8,
                    },
                });
            }
            steps.push(Step::Batch(b));
        }
    }
    Case { sqlite: false, steps }
}

fn dec_c09(s: &mut Src) -> props::c09::Case {
    use props::c09::{COp, Case};
    let initial_chain = s.below(4) as u8;
    let page_size = 1 + s.below(3) as u8;
    let clients = 2 + s.below(3);
    let mut scripts = vec![];
    for _ in 0..clients {
        let n = 1 + s.below(4);
        scripts.push(
            (0..n)
                .map(|_| match s.below(9) {
                    0..=3 => COp::Add { stale: false },
                    4 => COp::Add { stale: true },
                    5 | 6 => COp::GetChild { sel: s.u16() },
                    7 => COp::Walk,
                    _ => COp::AddSnapshot { sel: s.u16() },
                })
                .collect(),
        );
    }
    Case { initial_chain, page_size, scripts, schedule: s.rest() }
}

const TEXTS: [&str; 12] = ["", "a", "x y", "ü", "\"q\"", "\\", "12345", "1e5", "\u{0}", "null", "old_value", "日本"];

fn dec_c14(s: &mut Src) -> props::c14::InCase {
    use props::c14::{DOp, Doc, InCase};
    let mut docs = vec![];
    let nd = 1 + s.below(4);
    for _ in 0..nd {
        let n = s.below(8);
        let mut ops = vec![];
        for _ in 0..n {
            let t = s.below(3) as u8;
            let op = match s.below(6) {
                0 => DOp::Create { t },
                1 => DOp::Delete { t },
                _ => {
                    let digits = s.below(10);
                    DOp::Update {
                        t,
                        prop: s.string(&TEXTS),
                        value: if s.below(5) == 0 { None } else { Some(s.string(&TEXTS)) },
                        secs: s.u32() % 4_000_000_000,
                        frac: (0..digits).map(|_| char::from(b'0' + (s.u8() % 10))).collect(),
                    }
                }
            };
            ops.push((op, s.u8(), s.u8()));
        }
        docs.push(Doc { ops, bare: false });
    }
    InCase { docs }
}

fn dec_c16(s: &mut Src) -> props::c16::Case {
    use props::c16::{Call, Case, GOp, Step};
    fn kv(s: &mut Src) -> Vec<(String, String)> {
        let n = s.below(4);
        (0..n).map(|_| (s.string(&TEXTS), s.string(&TEXTS))).collect()
    }
    let mut steps = vec![];
    while s.left() > 0 && steps.len() < 10 {
        match s.below(12) {
            0 => steps.push(Step::Reopen),
            1 => steps.push(Step::ReadOnlyProbe),
            _ => {
                let n = 1 + s.below(9);
                let mut calls = vec![];
                for _ in 0..n {
                    let t = s.below(4) as u8;
                    calls.push(match s.below(20) {
                        0 => Call::GetTask(t),
                        1 => Call::GetPending,
                        2 => Call::CreateTask(t),
                        3 | 4 => Call::SetTask(t, kv(s)),
                        5 => Call::DeleteTask(t),
                        6 => Call::AllTasks,
                        7 => Call::AllUuids,
                        8 => Call::BaseVersion,
                        9 => Call::SetBaseVersion(s.below(4) as u8),
                        10 => Call::GetTaskOps(t),
                        11 => Call::Unsynced,
                        12 | 13 => Call::AddOp(match s.below(5) {
                            0 => GOp::Create(t),
                            1 => GOp::Delete(t, kv(s)),
                            2 => GOp::Undo,
                            _ => GOp::Update(
                                t,
                                s.string(&TEXTS),
                                if s.flag() { Some(s.string(&TEXTS)) } else { None },
                                if s.flag() { Some(s.string(&TEXTS)) } else { None },
                                s.u32() % 1_000_000_000,
                            ),
                        }),
                        14 => Call::RemoveOp(s.flag()),
                        15 => Call::SyncComplete,
                        16 => Call::GetWs,
                        17 => Call::AddToWs(t),
                        18 => Call::SetWsItem(s.u16(), if s.flag() { Some(t) } else { None }),
                        _ => if s.flag() { Call::ClearWs } else { Call::IsEmpty },
                    });
                }
                steps.push(Step::Txn { calls, commit: s.below(4) != 0 });
            }
        }
    }
    Case { steps }
}

const KEYS: [&str; 22] = [
    "entry", "wait", "modified", "due", "start", "end", "scheduled", "status", "description", "priority",
    "tag_", "tag_next", "tag_a b", "tag_PENDING", "tag_1x", "annotation_", "dep_", "uda", "ns.key", "", "tag", "dep",
];
const INTS: [&str; 16] = [
    "0", "1700000000", "-1", "9223372036854775807", "-9223372036854775808", "99999999999999999",
    "8210266876800", "-8334601228801", "+5", "007", "-0", "", "abc", " 1", "1e9", "99999999999999999999999999",
];
const STATUS: [&str; 6] = ["pending", "completed", "deleted", "recurring", "Pending", ""];

fn dec_c18(s: &mut Src) -> props::c18::Case {
    let nt = 1 + s.below(4);
    let mut tasks = vec![];
    for i in 0..nt {
        let n = s.below(10);
        let mut kvs = vec![];
        for _ in 0..n {
            let mut key = s.string(&KEYS);
            if key == "annotation_" {
                key.push_str(&s.string(&INTS));
            } else if key == "dep_" {
                match s.below(4) {
                    0 => key.push_str(&crate::engine::model::task_uuid((i + 1) % nt).to_string()),
                    1 => key.push_str(&crate::engine::model::task_uuid(s.below(6)).to_string()),
                    2 => key.push_str("xyz"),
                    _ => {}
                }
            } else if key == "tag_" {
                key.push_str(&s.string(&["x", "a b", ":c", "+p", "WAITING", "ünï"]));
            }
            let value = if key == "status" {
                s.string(&STATUS)
            } else {
                s.string(&INTS)
            };
            kvs.push((key, value));
        }
        tasks.push(kvs);
    }
    props::c18::Case { sqlite: false, tasks, after: vec![] }
}

fn fixed_key() -> &'static (Cryptor, [u8; 32]) {
    static K: OnceLock<(Cryptor, [u8; 32])> = OnceLock::new();
    K.get_or_init(|| {
        let salt = b"fuzz-salt-16byte";
        let secret = b"fuzz secret";
        (
            Cryptor::new(salt, secret).expect("key derivation"),
            doc_derive_key(secret, salt),
        )
    })
}

/// C13: raw bytes / a tamper program applied to a valid sealed value; the crate's unseal must
/// agree with the independent implementation on EVERY input (both reject, or both return the
/// same bytes), and nothing that differs from a value the crate sealed itself may open.
fn c13_unseal(data: &[u8]) -> Result<(), Failure> {
    if data.len() < 18 {
        return Ok(());
    }
    let (cr, key) = fixed_key();
    let vid = Uuid::from_slice(&data[..16]).unwrap();
    let mode = data[16];
    let rest = &data[17..];
    let candidate: Vec<u8> = if mode & 1 == 0 {
        // raw bytes as the sealed value
        rest.to_vec()
    } else {
        // a valid sealed value, mutated by a little program
        let plen = (rest[0] as usize) % 48;
        let payload: Vec<u8> = rest.iter().skip(1).take(plen).copied().collect();
        let sealed = cr
            .seal(vid, payload.clone())
            .map_err(|e| Failure::new("seal-error", format!("{e}")))?;
        let mut m = sealed.clone();
        let prog = &rest[(1 + plen).min(rest.len())..];
        for ch in prog.chunks(3) {
            if ch.len() < 3 || m.is_empty() {
                break;
            }
            let pos = ch[1] as usize % m.len();
            match ch[0] % 4 {
                0 => m[pos] ^= ch[2] | 1,
                1 => m.truncate(pos),
                2 => m.insert(pos, ch[2]),
                _ => {
                    let other = ch[2] as usize % m.len();
                    m.swap(pos, other)
                }
            }
        }
        if m != sealed {
            if let Ok(d) = cr.unseal(vid, m.clone()) {
                return Err(Failure::new(
                    "tamper-accepted:fuzz",
                    format!(
                        "a modified sealed value ({} bytes, original {}) opened to {} bytes",
                        m.len(),
                        sealed.len(),
                        d.len()
                    ),
                ));
            }
        }
        m
    };
    let ours = doc_open(key, vid.as_bytes(), &candidate).ok();
    let theirs = cr.unseal(vid, candidate.clone()).ok();
    if ours != theirs {
        return Err(Failure::new(
            "unseal-differs-from-documented-scheme",
            format!(
                "on a {}-byte input the crate's unseal gives {:?} but the independent implementation of the documented scheme gives {:?}",
                candidate.len(),
                theirs.map(|v| v.len()),
                ours.map(|v| v.len())
            ),
        ));
    }
    Ok(())
}

pub fn run(target: &str, data: &[u8]) -> Result<(), Failure> {
    let mut s = Src::new(data);
    match target {
        "c01_history" => props::c01::check_history(&dec_history(&mut s)).map(|_| ()),
        "c05_batch" => props::c05::check_case(&dec_c05(&mut s)).map(|_| ()),
        "c09_sched" => props::c09::check_case(&dec_c09(&mut s)).map(|_| ()),
        "c13_unseal" => c13_unseal(data),
        "c14_inbound" => props::c14::check_inbound(&dec_c14(&mut s)).map(|_| ()),
        "c16_lockstep" => props::c16::check_case(&dec_c16(&mut s)).map(|_| ()),
        "c18_read" => props::c18::check_case(&dec_c18(&mut s)).map(|_| ()),
        other => Err(Failure::new("infra", format!("unknown fuzz target {other}"))),
    }
}

/// Entry used by the libFuzzer binaries: a violation becomes a crash.
pub fn fuzz_entry(target: &str, data: &[u8]) {
    if let Err(f) = run(target, data) {
        if f.signature != "infra" && f.signature != "harness-bug" {
            panic!("VIOLATION property={} signature={} {}", property_of(target), f.signature, f.msg);
        }
    }
}
