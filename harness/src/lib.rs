//! tcverif — property-based verification harness for taskchampion (library part, shared by the
//! `tcverif` binary and the cargo-fuzz targets under fuzz/).
#![allow(dead_code)]

pub mod engine;
pub mod fuzz_targets;
pub mod props;
